#!/usr/bin/env python3
"""Rewrites the table of DESIGN.md section 9.2 from evidence/*.json (quick tier, committed) and thorough_log.txt
(result lines of background runs of the thorough tier)."""
import json, re, os
here = os.path.dirname(os.path.abspath(__file__))
def fmt(n):
    n = int(n)
    if n >= 1e6:
        e = len(str(n)) - 1
        return ('%.2g' % (n / 10 ** e)) + 'e%d' % e
    return str(n)
def secs(x):
    return '<1 s' if float(x) < 1 else '%.0f s' % float(x)
th = {}
for l in open(os.path.join(here, 'thorough_log.txt')):
    m = re.match(r'(C\d\d) thorough: states=(\d+) transitions=(\d+) nontrivial=(\d+) exhaustive=(\w+) known=(\d+) violations=(\d+) wall=([\d.]+)s', l)
    if m:
        th[m.group(1)] = m.groups()
rows = []
for i in range(1, 19):
    c = 'C%02d' % i
    e = json.load(open(os.path.join(here, 'evidence', c + '.json')))
    t = th[c]
    rows.append('| %s | %s / %s / %s | %s / %s / %s |' % (c, fmt(e['coverage']['states']), fmt(e['coverage']['transitions']), secs(e['wall_s']), fmt(t[1]), fmt(t[2]), secs(t[7])))
p = os.path.join(here, 'DESIGN.md')
s = open(p).read()
a = s.index('| check | quick: states / transitions / wall |')
b = s.index('What the thorough tier adds')
s = s[:a] + '| check | quick: states / transitions / wall | thorough: states / transitions / wall |\n|---|---|---|\n' + '\n'.join(rows) + '\n\n' + s[b:]
open(p, 'w').write(s)
print('table rewritten')
