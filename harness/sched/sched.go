// Package sched is a controlled scheduler with a preemption-bounded
// depth-first explorer (iterative context bounding, Musuvathi & Qadeer 2007).
// Threads are goroutines that run one at a time; every statement of the code
// under test is a scheduling point (the instrumented build calls Yield).
package sched

import (
	"fmt"
)

type thread struct {
	wake chan struct{}
	done bool
	body func()
	pan  interface{}
}

type point struct {
	nEnabled int
	choice   int
	preempt  bool // the running thread was still enabled at this point
}

type exec struct {
	threads  []*thread
	cur      int
	prefix   []int
	points   []point
	fin      chan struct{}
	limit    int
	runaway  bool
	streak   int  // consecutive Blocked calls without any thread making progress
	deadlock bool // every live thread is waiting
}

var ex *exec

func (e *exec) enabled() []int {
	out := make([]int, 0, len(e.threads))
	if e.cur >= 0 && !e.threads[e.cur].done {
		out = append(out, e.cur)
	}
	for i, t := range e.threads {
		if i != e.cur && !t.done {
			out = append(out, i)
		}
	}
	return out
}

func (e *exec) decide() int {
	en := e.enabled()
	c := 0
	if len(e.points) < len(e.prefix) {
		c = e.prefix[len(e.points)]
		if c >= len(en) {
			panic(fmt.Sprintf("sched: replay divergence at point %d: choice %d of %d enabled", len(e.points), c, len(en)))
		}
	}
	e.points = append(e.points, point{nEnabled: len(en), choice: c, preempt: e.cur >= 0 && !e.threads[e.cur].done})
	return en[c]
}

// Yield is the scheduling point called before every statement.
func Yield() {
	e := ex
	if e == nil {
		return
	}
	if len(e.points) > e.limit {
		e.runaway = true
		return // stop branching; let the execution finish sequentially
	}
	e.streak = 0
	me := e.cur
	next := e.decide()
	if next != me {
		e.cur = next
		e.threads[next].wake <- struct{}{}
		<-e.threads[me].wake
	}
}

// DeadlockPanic unwinds a thread when every live thread is waiting.
type DeadlockPanic struct{}

func (DeadlockPanic) Error() string { return "sched: deadlock (every live thread is waiting)" }

// Blocked is called by the sync shims when the running thread cannot proceed: the scheduler must
// run somebody else (a forced switch, not a preemption). If nobody else can run, or all live
// threads keep waiting on each other, the execution is a deadlock.
func Blocked() {
	e := ex
	if e == nil {
		return
	}
	me := e.cur
	var others []int
	for i, t := range e.threads {
		if i != me && !t.done {
			others = append(others, i)
		}
	}
	e.streak++
	if len(others) == 0 || e.streak > 4*len(e.threads) {
		e.deadlock = true
		panic(DeadlockPanic{})
	}
	// forced choice among the other live threads (a choice point without preemption cost)
	c := 0
	if len(e.points) < len(e.prefix) {
		c = e.prefix[len(e.points)]
		if c >= len(others) {
			panic(fmt.Sprintf("sched: replay divergence at blocked point %d", len(e.points)))
		}
	}
	e.points = append(e.points, point{nEnabled: len(others), choice: c, preempt: false})
	next := others[c]
	e.cur = next
	e.threads[next].wake <- struct{}{}
	<-e.threads[me].wake
}

func run(bodies []func(), prefix []int, limit int) *exec {
	e := &exec{prefix: prefix, fin: make(chan struct{}), cur: -1, limit: limit}
	for _, b := range bodies {
		e.threads = append(e.threads, &thread{wake: make(chan struct{}), body: b})
	}
	for i, t := range e.threads {
		i, t := i, t
		go func() {
			<-t.wake
			func() {
				defer func() {
					if r := recover(); r != nil {
						t.pan = r
					}
				}()
				t.body()
			}()
			t.done = true
			e.cur = i
			if len(e.enabled()) == 0 {
				close(e.fin)
				return
			}
			next := e.decide()
			e.cur = next
			e.threads[next].wake <- struct{}{}
		}()
	}
	ex = e
	first := e.decide()
	e.cur = first
	e.threads[first].wake <- struct{}{}
	<-e.fin
	ex = nil
	return e
}

// Stats summarises one exploration.
type Stats struct {
	Executions int
	MaxPoints  int
	Capped     bool // the execution cap was hit: not exhaustive at this bound
	Runaway    bool // an execution exceeded the per-execution point limit
	Panics     int
	Deadlocks  int
}

// Explorer explores all schedules of the bodies with at most Bound preemptions.
type Explorer struct {
	Bound    int
	MaxExec  int                  // cap on executions (0 = none)
	MaxPts   int                  // cap on scheduling points per execution
	Bodies   func() []func()      // fresh thread bodies (and fresh state) per execution
	Check    func(sched []int, panics []interface{}) // evaluated after every execution
	SetHook  func(func())         // installs / removes the yield hook in the code under test
	Abort    bool                 // set by Check to stop the exploration (a violation was found)
	stats    Stats
}

// Run performs the exploration.
func (x *Explorer) Run() Stats {
	if x.MaxPts == 0 {
		x.MaxPts = 20000
	}
	x.stats = Stats{}
	x.explore(nil)
	return x.stats
}

func (x *Explorer) one(prefix []int) *exec {
	bodies := x.Bodies()
	x.SetHook(Yield)
	e := run(bodies, prefix, x.MaxPts)
	x.SetHook(nil)
	x.stats.Executions++
	if len(e.points) > x.stats.MaxPoints {
		x.stats.MaxPoints = len(e.points)
	}
	if e.runaway {
		x.stats.Runaway = true
	}
	if e.deadlock {
		x.stats.Deadlocks++
	}
	var pans []interface{}
	for _, t := range e.threads {
		if t.pan != nil {
			pans = append(pans, t.pan)
			x.stats.Panics++
		}
	}
	choices := make([]int, len(e.points))
	for i, p := range e.points {
		choices[i] = p.choice
	}
	x.Check(choices, pans)
	return e
}

func (x *Explorer) explore(prefix []int) {
	if x.Abort {
		return
	}
	if x.MaxExec > 0 && x.stats.Executions >= x.MaxExec {
		x.stats.Capped = true
		return
	}
	e := x.one(prefix)
	pre := 0
	for i := 0; i < len(e.points); i++ {
		p := e.points[i]
		if i >= len(prefix) {
			cost := pre
			if p.preempt {
				cost++
			}
			if cost <= x.Bound {
				for alt := 1; alt < p.nEnabled; alt++ {
					np := make([]int, i+1)
					for j := 0; j < i; j++ {
						np[j] = e.points[j].choice
					}
					np[i] = alt
					x.explore(np)
					if x.stats.Capped || x.Abort {
						return
					}
				}
			}
		}
		if p.choice != 0 && p.preempt {
			pre++
		}
	}
}

// Replay runs one recorded schedule.
func (x *Explorer) Replay(schedule []int) {
	x.one(schedule)
}
