package ref

import (
	"encoding/binary"
	"errors"
	"fmt"

	"github.com/pion/rtcp"
)

// Status symbols of transport-wide-cc-01 3.1.1.
const (
	StNotReceived = 0
	StSmall       = 1
	StLarge       = 2
)

// ChunkSpec is one packet status chunk of a chunking.
type ChunkSpec struct {
	Vector  bool
	TwoBit  bool     // vector chunks
	Symbols []uint16 // vector chunks: the symbols carried (zero-filled on the wire)
	Symbol  uint16   // run-length chunks
	Run     uint16   // run-length chunks: the 13-bit field as written
}

func (c ChunkSpec) Word() uint16 {
	if !c.Vector {
		return c.Symbol<<13 | c.Run&0x1fff
	}
	x := uint16(0x8000)
	if c.TwoBit {
		x |= 0x4000
		for i, s := range c.Symbols {
			x |= s << (12 - 2*uint(i))
		}
	} else {
		for i, s := range c.Symbols {
			x |= s << (13 - uint(i))
		}
	}
	return x
}

func (c ChunkSpec) String() string {
	if !c.Vector {
		return fmt.Sprintf("RL(s%d x%d)", c.Symbol, c.Run)
	}
	if c.TwoBit {
		return fmt.Sprintf("V2%v", c.Symbols)
	}
	return fmt.Sprintf("V1%v", c.Symbols)
}

// PionChunk converts to the struct form pion's decoder produces (full symbol
// lists of 14 / 7 entries).
func (c ChunkSpec) PionChunk() rtcp.PacketStatusChunk {
	if !c.Vector {
		return &rtcp.RunLengthChunk{Type: rtcp.TypeTCCRunLengthChunk, PacketStatusSymbol: c.Symbol, RunLength: c.Run}
	}
	n := 14
	ss := uint16(rtcp.TypeTCCSymbolSizeOneBit)
	if c.TwoBit {
		n = 7
		ss = rtcp.TypeTCCSymbolSizeTwoBit
	}
	syms := make([]uint16, n)
	copy(syms, c.Symbols)
	return &rtcp.StatusVectorChunk{Type: rtcp.TypeTCCStatusVectorChunk, SymbolSize: ss, SymbolList: syms}
}

// Chunkings enumerates every valid chunking of a status sequence following
// the grammar of DESIGN.md C13: run-length chunks over any prefix of a run
// (a run may be split), 2-bit vectors over the next <=7 statuses, 1-bit
// vectors over the next <=14 (no large delta among them), the final chunk may
// overshoot (zero-filled vector; run length rem+1 or 8191), and at most
// maxZero zero-length run chunks inserted anywhere.
func Chunkings(st []uint8, maxZero int, yield func([]ChunkSpec) bool) bool {
	var cur []ChunkSpec
	var rec func(i, zeros int) bool
	rec = func(i, zeros int) bool {
		n := len(st)
		if i == n {
			out := make([]ChunkSpec, len(cur))
			copy(out, cur)
			return yield(out)
		}
		rem := n - i
		// zero-length run chunk
		if zeros < maxZero {
			for _, s := range []uint16{0, 1} {
				cur = append(cur, ChunkSpec{Symbol: s, Run: 0})
				ok := rec(i, zeros+1)
				cur = cur[:len(cur)-1]
				if !ok {
					return false
				}
			}
		}
		// run-length chunk
		run := 1
		for i+run < n && st[i+run] == st[i] {
			run++
		}
		for l := 1; l <= run; l++ {
			cur = append(cur, ChunkSpec{Symbol: uint16(st[i]), Run: uint16(l)})
			ok := rec(i+l, zeros)
			cur = cur[:len(cur)-1]
			if !ok {
				return false
			}
		}
		if i+run == n { // overshooting final run
			for _, l := range []int{rem + 1, 8191} {
				if l <= run || l > 8191 {
					continue
				}
				cur = append(cur, ChunkSpec{Symbol: uint16(st[i]), Run: uint16(l)})
				ok := rec(n, zeros)
				cur = cur[:len(cur)-1]
				if !ok {
					return false
				}
			}
		}
		// 2-bit vector
		k := rem
		if k > 7 {
			k = 7
		}
		syms := make([]uint16, k)
		for j := 0; j < k; j++ {
			syms[j] = uint16(st[i+j])
		}
		cur = append(cur, ChunkSpec{Vector: true, TwoBit: true, Symbols: syms})
		ok := rec(i+k, zeros)
		cur = cur[:len(cur)-1]
		if !ok {
			return false
		}
		// 1-bit vector
		k = rem
		if k > 14 {
			k = 14
		}
		one := true
		for j := 0; j < k; j++ {
			if st[i+j] == StLarge {
				one = false
			}
		}
		if one {
			syms := make([]uint16, k)
			for j := 0; j < k; j++ {
				syms[j] = uint16(st[i+j])
			}
			cur = append(cur, ChunkSpec{Vector: true, Symbols: syms})
			ok := rec(i+k, zeros)
			cur = cur[:len(cur)-1]
			if !ok {
				return false
			}
		}
		return true
	}
	return rec(0, 0)
}

// TWCCSpec describes one transport-wide-cc packet semantically plus the wire
// choices (chunking, padding style).
type TWCCSpec struct {
	Sender, Media uint32
	BaseSeq       uint16
	RefTime       uint32
	FbCount       uint8
	Statuses      []uint8
	Ticks         []int64 // one per received status, in order, in 250us ticks
	Chunks        []ChunkSpec
	PBit          bool // use the RTCP padding bit + count octet when padding is needed
}

// Bytes is the reference wire form.
func (s TWCCSpec) Bytes() []byte {
	b := []byte{0x80 | 15, 205, 0, 0}
	b = binary.BigEndian.AppendUint32(b, s.Sender)
	b = binary.BigEndian.AppendUint32(b, s.Media)
	b = binary.BigEndian.AppendUint16(b, s.BaseSeq)
	b = binary.BigEndian.AppendUint16(b, uint16(len(s.Statuses)))
	b = append(b, byte(s.RefTime>>16), byte(s.RefTime>>8), byte(s.RefTime), s.FbCount)
	for _, c := range s.Chunks {
		b = binary.BigEndian.AppendUint16(b, c.Word())
	}
	k := 0
	for _, st := range s.Statuses {
		switch st {
		case StSmall:
			b = append(b, byte(s.Ticks[k]))
			k++
		case StLarge:
			b = binary.BigEndian.AppendUint16(b, uint16(int16(s.Ticks[k])))
			k++
		}
	}
	pad := 0
	for len(b)%4 != 0 {
		b = append(b, 0)
		pad++
	}
	if s.PBit && pad > 0 {
		b[0] |= 0x20
		b[len(b)-1] = byte(pad)
	}
	binary.BigEndian.PutUint16(b[2:], uint16(len(b)/4-1))
	return b
}

// Packet is the struct pion's decoder is expected to return for Bytes() — and
// a well-formed value of D that pion's encoder must turn back into Bytes().
func (s TWCCSpec) Packet() *rtcp.TransportLayerCC {
	raw := s.Bytes()
	p := &rtcp.TransportLayerCC{
		Header:             rtcp.Header{Padding: raw[0]&0x20 != 0, Count: 15, Type: 205, Length: binary.BigEndian.Uint16(raw[2:])},
		SenderSSRC:         s.Sender,
		MediaSSRC:          s.Media,
		BaseSequenceNumber: s.BaseSeq,
		PacketStatusCount:  uint16(len(s.Statuses)),
		ReferenceTime:      s.RefTime,
		FbPktCount:         s.FbCount,
	}
	for _, c := range s.Chunks {
		p.PacketChunks = append(p.PacketChunks, c.PionChunk())
	}
	k := 0
	for _, st := range s.Statuses {
		switch st {
		case StSmall:
			p.RecvDeltas = append(p.RecvDeltas, &rtcp.RecvDelta{Type: rtcp.TypeTCCPacketReceivedSmallDelta, Delta: 250 * s.Ticks[k]})
			k++
		case StLarge:
			p.RecvDeltas = append(p.RecvDeltas, &rtcp.RecvDelta{Type: rtcp.TypeTCCPacketReceivedLargeDelta, Delta: 250 * s.Ticks[k]})
			k++
		}
	}
	return p
}

// DefaultTicks gives distinct in-range tick values for the received statuses.
func DefaultTicks(st []uint8) []int64 {
	var out []int64
	k := int64(0)
	for _, s := range st {
		k++
		switch s {
		case StSmall:
			out = append(out, (0x81+7*k)%256)
		case StLarge:
			v := int64(0x0123) + (0x0101*k)%0x7e00 // stays inside the 16-bit signed range for long sequences
			if k%2 == 0 {
				v = -v
			}
			out = append(out, v)
		}
	}
	return out
}

// GreedyChunking is the run-length-per-run chunking.
func GreedyChunking(st []uint8) []ChunkSpec {
	var out []ChunkSpec
	for i := 0; i < len(st); {
		j := i
		for j < len(st) && st[j] == st[i] {
			j++
		}
		out = append(out, ChunkSpec{Symbol: uint16(st[i]), Run: uint16(j - i)})
		i = j
	}
	return out
}

// VectorChunking covers the sequence with vector chunks.
func VectorChunking(st []uint8, twoBit bool) []ChunkSpec {
	per := 14
	if twoBit {
		per = 7
	}
	var out []ChunkSpec
	for i := 0; i < len(st); i += per {
		j := i + per
		if j > len(st) {
			j = len(st)
		}
		syms := make([]uint16, j-i)
		for k := i; k < j; k++ {
			syms[k-i] = uint16(st[k])
		}
		out = append(out, ChunkSpec{Vector: true, TwoBit: twoBit, Symbols: syms})
	}
	return out
}

type twccShape struct {
	name  string
	build func() *rtcp.TransportLayerCC
}

func twccShapes(thorough bool) []twccShape {
	seqs := [][]uint8{
		{},
		{1},
		{2},
		{0, 1},
		{1, 1},
		{0, 0},             // two statuses, no deltas
		{0, 0, 0, 0, 1, 1}, // two run-length chunks
		{1, 2, 0, 1},
		{1, 1, 1, 2, 2, 0, 0},
		{1, 0, 1, 0, 1, 0, 1, 0, 1, 0, 1, 0, 1, 0, 1},
		{2, 2, 2, 2, 2, 2, 2, 2},
		{0, 0, 0, 0, 0, 0, 0, 0},                      // 2-bit vectors: two chunks, no deltas, chunks end at the packet end
		{0, 0, 0, 0, 0, 0, 0, 0, 0, 0, 0, 0, 0, 0, 0}, // 1-bit vectors: two chunks, no deltas
		{1, 1, 0, 0, 0, 0, 0, 0, 0, 0, 0, 0, 0, 0, 0, 1, 1}, // deltas end exactly at a 32-bit boundary
	}
	if thorough {
		seqs = append(seqs, []uint8{0, 0, 0, 0, 0, 0, 0, 0, 0, 0, 0, 0, 0, 0, 0, 0, 0, 0, 0, 0, 1}, []uint8{1, 2, 1, 2, 1, 2, 1, 2, 1, 2, 0, 0, 0, 1})
	}
	var out []twccShape
	// feedback of 64 KiB and more (sizes that do not fit 16 bits; statuses up to the 16-bit count)
	for _, bg := range []struct {
		sym uint8
		n   int
	}{{StSmall, 40000}, {StSmall, 65535}, {StLarge, 32760}, {StLarge, 65535}} {
		bg := bg
		st := make([]uint8, bg.n)
		for i := range st {
			st[i] = bg.sym
		}
		var cs []ChunkSpec
		for left := bg.n; left > 0; {
			r := left
			if r > 8191 {
				r = 8191
			}
			cs = append(cs, ChunkSpec{Symbol: uint16(bg.sym), Run: uint16(r)})
			left -= r
		}
		spec := TWCCSpec{Sender: 0x902f9e2e, Media: 0xa1b2c3d4, BaseSeq: 0x0003, RefTime: 0x8a9bac, FbCount: 0xc7, Statuses: st, Ticks: DefaultTicks(st), Chunks: cs}
		out = append(out, twccShape{name: fmt.Sprintf("big:status=%dx%d,chunking=rl", bg.sym, bg.n), build: func() *rtcp.TransportLayerCC { return spec.Packet() }})
	}
	for si, st := range seqs {
		type ck struct {
			n string
			c []ChunkSpec
		}
		cks := []ck{{"rl", GreedyChunking(st)}, {"v2", VectorChunking(st, true)}}
		large := false
		for _, s := range st {
			if s == StLarge {
				large = true
			}
		}
		if !large {
			cks = append(cks, ck{"v1", VectorChunking(st, false)})
		}
		for _, c := range cks {
			for _, pbit := range []bool{false, true} {
				st, c, pbit, si := st, c, pbit, si
				spec := TWCCSpec{Sender: 0x902f9e2e, Media: 0xa1b2c3d4, BaseSeq: 0xfffe, RefTime: 0x8a9bac, FbCount: 0xc7, Statuses: st, Ticks: DefaultTicks(st), Chunks: c.c, PBit: pbit}
				if pbit && spec.Bytes()[0]&0x20 == 0 {
					continue // no padding needed: identical to the pbit=false shape
				}
				out = append(out, twccShape{name: fmt.Sprintf("seq=%d,chunking=%s,pbit=%v", si, c.n, pbit), build: func() *rtcp.TransportLayerCC { return spec.Packet() }})
			}
		}
	}
	return out
}

// Expanded is the independent reading of a transport-wide-cc packet.
type Expanded struct {
	Sender, Media uint32
	BaseSeq       uint16
	StatusCount   uint16
	RefTime       uint32
	FbCount       uint8
	Statuses      []uint8 // clipped to StatusCount
	Deltas        []int64 // microseconds, one per received status
	Sizes         []uint8 // 1 or 2 per delta
	NChunks       int
	End           int  // offset just after the last delta
	Surplus       bool // a vector chunk overshot the status count with non-zero surplus symbols
	Reserved      bool // symbol 3 present
}

// ExpandTWCC parses a transport-wide-cc packet from its declared length,
// independently of pion's decoder.
func ExpandTWCC(b []byte) (*Expanded, error) {
	if len(b) < 20 {
		return nil, errors.New("short")
	}
	if b[0]>>6 != 2 || b[0]&0x1f != 15 || b[1] != 205 {
		return nil, errors.New("not twcc")
	}
	total := 4 * (int(binary.BigEndian.Uint16(b[2:])) + 1)
	if total > len(b) || total < 20 {
		return nil, errors.New("length")
	}
	e := &Expanded{Sender: binary.BigEndian.Uint32(b[4:]), Media: binary.BigEndian.Uint32(b[8:]), BaseSeq: binary.BigEndian.Uint16(b[12:]),
		StatusCount: binary.BigEndian.Uint16(b[14:]), RefTime: uint32(b[16])<<16 | uint32(b[17])<<8 | uint32(b[18]), FbCount: b[19]}
	pos := 20
	n := int(e.StatusCount)
	for len(e.Statuses) < n {
		if pos+2 > total {
			return nil, errors.New("chunks beyond length")
		}
		w := binary.BigEndian.Uint16(b[pos:])
		pos += 2
		e.NChunks++
		if w&0x8000 == 0 {
			s := uint8(w >> 13 & 3)
			l := int(w & 0x1fff)
			for i := 0; i < l && len(e.Statuses) < n; i++ {
				e.Statuses = append(e.Statuses, s)
			}
		} else if w&0x4000 == 0 {
			for i := 0; i < 14; i++ {
				s := uint8(w >> (13 - uint(i)) & 1)
				if len(e.Statuses) < n {
					e.Statuses = append(e.Statuses, s)
				} else if s != 0 {
					e.Surplus = true
				}
			}
		} else {
			for i := 0; i < 7; i++ {
				s := uint8(w >> (12 - 2*uint(i)) & 3)
				if len(e.Statuses) < n {
					e.Statuses = append(e.Statuses, s)
				} else if s != 0 {
					e.Surplus = true
				}
			}
		}
	}
	for _, s := range e.Statuses {
		switch s {
		case StSmall:
			if pos+1 > total {
				return nil, errors.New("deltas beyond length")
			}
			e.Deltas = append(e.Deltas, 250*int64(b[pos]))
			e.Sizes = append(e.Sizes, 1)
			pos++
		case StLarge:
			if pos+2 > total {
				return nil, errors.New("deltas beyond length")
			}
			e.Deltas = append(e.Deltas, 250*int64(int16(binary.BigEndian.Uint16(b[pos:]))))
			e.Sizes = append(e.Sizes, 2)
			pos += 2
		case 3:
			e.Reserved = true
		}
	}
	e.End = pos
	return e, nil
}
