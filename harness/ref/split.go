package ref

import (
	"encoding/binary"
	"errors"
)

// Split is the reference datagram splitter of RFC 3550 6.1 / 6.4: frames are
// delimited by the length field of each common header.
func Split(b []byte) ([][]byte, error) {
	if len(b) == 0 {
		return nil, errors.New("empty datagram")
	}
	var out [][]byte
	for len(b) > 0 {
		if len(b) < 4 {
			return nil, errors.New("trailing octets do not hold a header")
		}
		if b[0]>>6 != 2 {
			return nil, errors.New("version is not 2")
		}
		n := 4 * (int(binary.BigEndian.Uint16(b[2:])) + 1)
		if n > len(b) {
			return nil, errors.New("length field beyond the datagram")
		}
		out = append(out, b[:n])
		b = b[n:]
	}
	return out, nil
}
