package ref

import (
	"encoding/binary"
	"errors"
)

// Split is the reference datagram splitter of RFC 3550 6.1 / 6.4: frames are
// delimited by the length field of each common header.
func Split(b []byte) ([][]byte, error) {
	if len(b) == 0 {
		return nil, errors.New("empty datagram")
	}
	var out [][]byte
	for len(b) > 0 {
		if len(b) < 4 {
			return nil, errors.New("trailing octets do not hold a header")
		}
		if b[0]>>6 != 2 {
			return nil, errors.New("version is not 2")
		}
		n := 4 * (int(binary.BigEndian.Uint16(b[2:])) + 1)
		if n > len(b) {
			return nil, errors.New("length field beyond the datagram")
		}
		out = append(out, b[:n])
		b = b[n:]
	}
	return out, nil
}

// XRWalked is one report block found by the independent RFC 3611 walker.
type XRWalked struct {
	BT, TS uint8
	Words  int // block length field
	Body   []byte
}

// WalkXR splits an extended report into its blocks using only the block
// length fields.
func WalkXR(b []byte) (ssrc uint32, blocks []XRWalked, err error) {
	if len(b) < 8 || b[0]>>6 != 2 || b[1] != 207 {
		return 0, nil, errors.New("not an XR packet")
	}
	total := 4 * (int(binary.BigEndian.Uint16(b[2:])) + 1)
	if total != len(b) {
		return 0, nil, errors.New("length field does not match the packet size")
	}
	ssrc = binary.BigEndian.Uint32(b[4:])
	pos := 8
	for pos < total {
		if pos+4 > total {
			return 0, nil, errors.New("truncated block header")
		}
		w := int(binary.BigEndian.Uint16(b[pos+2:]))
		end := pos + 4*(w+1)
		if end > total {
			return 0, nil, errors.New("block length beyond the packet")
		}
		blocks = append(blocks, XRWalked{BT: b[pos], TS: b[pos+1], Words: w, Body: b[pos+4 : end]})
		pos = end
	}
	return ssrc, blocks, nil
}
