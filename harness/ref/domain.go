package ref

import (
	"fmt"
	"strings"

	"github.com/pion/rtcp"
)

// V is one element of the well-formed domain D.
type V struct {
	P     rtcp.Packet
	Type  string
	Shape string // structural shape
	Dev   string // field deviations off the tagged base ("" = base)
}

func (v V) String() string { return v.Type + "{" + v.Shape + "}" + v.Dev }

// tagger hands out distinct, high-bit-set, all-bytes-different values so that
// any swap, shift, truncation or byte-order mistake is visible.
type tagger struct{ k uint32 }

func (t *tagger) u32() uint32 {
	t.k++
	k := t.k
	return (0x81+k%0x7d)<<24 | (0x11+(k*3)%0x6b)<<16 | (0x21+(k*5)%0x59)<<8 | (0x31 + (k*7)%0x4d)
}

// Skip advances the tag counter so that a second generator yields other values.
func (t *tagger) Skip()       { t.k += 13 }
func (t *tagger) u16() uint16 { return uint16(t.u32() >> 16) }
func (t *tagger) u8() uint8   { return uint8(t.u32() >> 24) }
func (t *tagger) u64() uint64 { return uint64(t.u32())<<32 | uint64(t.u32()^0x0f0f0f0f) }
func (t *tagger) bytes(n int) []byte {
	if n == 0 {
		return nil
	}
	b := make([]byte, n)
	for i := range b {
		t.k++
		b[i] = byte(0x80 + (t.k*11)%0x7f)
	}
	return b
}
// Text returns n tagged letters.
func (t *tagger) Text(n int) string { return t.text(n) }

func (t *tagger) text(n int) string {
	b := make([]byte, n)
	for i := range b {
		t.k++
		b[i] = byte('a' + (t.k*7)%26)
	}
	return string(b)
}

func (t *tagger) report() rtcp.ReceptionReport {
	return rtcp.ReceptionReport{SSRC: t.u32(), FractionLost: t.u8(), TotalLost: t.u32() & 0xffffff, LastSequenceNumber: t.u32(), Jitter: t.u32(), LastSenderReport: t.u32(), Delay: t.u32()}
}

// Builder makes a fresh base value of one structural shape.
type Builder struct {
	Type  string
	Shape string
	Make  func() rtcp.Packet
}

func ints(thorough bool, q, th []int) []int {
	if thorough {
		return th
	}
	return q
}

// Builders lists every (type, structural shape) of D.
func Builders(thorough bool) []Builder {
	var out []Builder
	add := func(typ, shape string, mk func() rtcp.Packet) {
		out = append(out, Builder{typ, shape, mk})
	}
	all32 := make([]int, 32)
	for i := range all32 {
		all32[i] = i
	}
	// list lengths: small ones, the powers of two and their neighbours, the maximum; thorough: every length
	_ = all32
	thCounts := []int{0, 1, 2, 3, 4, 5, 6, 7, 8, 9, 10, 11, 12, 15, 16, 17, 23, 24, 30, 31}
	counts := ints(thorough, []int{0, 1, 2, 3, 7, 8, 9, 15, 16, 17, 31}, thCounts)
	// SR
	for _, n := range counts {
		for _, e := range ints(thorough, []int{0, 4, 8, 16, 256}, []int{0, 4, 8, 12, 16, 32, 64, 128, 256, 1024}) {
			n, e := n, e
			add("SenderReport", fmt.Sprintf("reports=%d,ext=%d", n, e), func() rtcp.Packet {
				t := &tagger{}
				p := &rtcp.SenderReport{SSRC: t.u32(), NTPTime: t.u64(), RTPTime: t.u32(), PacketCount: t.u32(), OctetCount: t.u32()}
				for i := 0; i < n; i++ {
					p.Reports = append(p.Reports, t.report())
				}
				p.ProfileExtensions = t.bytes(e)
				return p
			})
		}
	}
	// packets of 64 KiB and more, up to the largest the length field can express (262144 octets)
	for _, e := range []int{65508, 65512, 65536, 262144 - 28} {
		e := e
		add("SenderReport", fmt.Sprintf("big:reports=0,ext=%d", e), func() rtcp.Packet {
			t := &tagger{}
			return &rtcp.SenderReport{SSRC: t.u32(), NTPTime: t.u64(), RTPTime: t.u32(), PacketCount: t.u32(), OctetCount: t.u32(), ProfileExtensions: t.bytes(e)}
		})
	}
	for _, e := range []int{65528, 65532, 65536, 262144 - 8 - 24} {
		e := e
		add("ReceiverReport", fmt.Sprintf("big:reports=1,ext=%d", e), func() rtcp.Packet {
			t := &tagger{}
			return &rtcp.ReceiverReport{SSRC: t.u32(), Reports: []rtcp.ReceptionReport{t.report()}, ProfileExtensions: t.bytes(e)}
		})
	}
	for _, ni := range []int{9, 32} {
		ni := ni
		add("SourceDescription", fmt.Sprintf("big:chunks=31,items=%dx255", ni), func() rtcp.Packet {
			t := &tagger{}
			p := &rtcp.SourceDescription{}
			for c := 0; c < 31; c++ {
				ch := rtcp.SourceDescriptionChunk{Source: t.u32()}
				for i := 0; i < ni; i++ {
					ch.Items = append(ch.Items, rtcp.SourceDescriptionItem{Type: rtcp.SDESType(1 + (c+i)%8), Text: t.text(255)})
				}
				p.Chunks = append(p.Chunks, ch)
			}
			return p
		})
	}
	for _, l := range []int{65519, 65520, 65523, 65524, 65528, 65536, 262132} {
		l := l
		add("ApplicationDefined", fmt.Sprintf("big:data=%d", l), func() rtcp.Packet {
			t := &tagger{}
			return &rtcp.ApplicationDefined{SubType: 0x15, SSRC: t.u32(), Name: "NaMe", Data: t.bytes(l)}
		})
	}
	for _, nb := range []int{2, 7} {
		nb := nb
		add("CCFeedbackReport", fmt.Sprintf("big:blocks=%d,metrics=16384", nb), func() rtcp.Packet {
			t := &tagger{}
			p := &rtcp.CCFeedbackReport{SenderSSRC: t.u32(), ReportTimestamp: t.u32()}
			for b := 0; b < nb; b++ {
				blk := rtcp.CCFeedbackReportBlock{MediaSSRC: t.u32(), BeginSequence: uint16(1000 * b), MetricBlocks: make([]rtcp.CCFeedbackMetricBlock, 16384)}
				for m := range blk.MetricBlocks {
					if (m+b)%3 != 1 {
						blk.MetricBlocks[m] = rtcp.CCFeedbackMetricBlock{Received: true, ECN: rtcp.ECN(m & 3), ArrivalTimeOffset: uint16(m*7) & 0x1fff}
					}
				}
				p.ReportBlocks = append(p.ReportBlocks, blk)
			}
			return p
		})
	}
	// RR
	for _, n := range counts {
		for _, e := range ints(thorough, []int{0, 1, 2, 3, 4, 5, 8, 9}, []int{0, 1, 2, 3, 4, 5, 6, 7, 8, 9, 10, 11, 12, 13, 14, 15, 16, 17}) {
			n, e := n, e
			add("ReceiverReport", fmt.Sprintf("reports=%d,ext=%d", n, e), func() rtcp.Packet {
				t := &tagger{}
				p := &rtcp.ReceiverReport{SSRC: t.u32()}
				for i := 0; i < n; i++ {
					p.Reports = append(p.Reports, t.report())
				}
				p.ProfileExtensions = t.bytes(e)
				return p
			})
		}
	}
	// SDES
	textLens := ints(thorough, []int{0, 1, 2, 3, 4, 5, 6, 7, 8, 9, 15, 16, 17, 31, 32, 33, 63, 64, 65, 127, 128, 129, 254, 255},
		[]int{0, 1, 2, 3, 4, 5, 6, 7, 8, 9, 10, 11, 12, 13, 14, 15, 16, 17, 18, 30, 31, 32, 33, 34, 62, 63, 64, 65, 66, 126, 127, 128, 129, 130, 191, 192, 193, 252, 253, 254, 255})
	for _, l := range textLens {
		l := l
		add("SourceDescription", fmt.Sprintf("chunks=1,items=1,text=%d", l), func() rtcp.Packet {
			t := &tagger{}
			return &rtcp.SourceDescription{Chunks: []rtcp.SourceDescriptionChunk{{Source: t.u32(), Items: []rtcp.SourceDescriptionItem{{Type: rtcp.SDESCNAME, Text: t.text(l)}}}}}
		})
	}
	for _, nc := range ints(thorough, []int{0, 1, 2, 3, 7, 8, 15, 16, 17, 31}, thCounts) {
		for _, ni := range ints(thorough, []int{0, 1, 2, 3}, []int{0, 1, 2, 3, 4}) {
			for rot := 0; rot < 4; rot++ {
				if nc == 0 && (ni > 0 || rot > 0) || ni == 0 && rot > 0 {
					continue
				}
				nc, ni, rot := nc, ni, rot
				add("SourceDescription", fmt.Sprintf("chunks=%d,items=%d,rot=%d", nc, ni, rot), func() rtcp.Packet {
					t := &tagger{}
					p := &rtcp.SourceDescription{}
					k := rot
					for c := 0; c < nc; c++ {
						ch := rtcp.SourceDescriptionChunk{Source: t.u32()}
						for i := 0; i < ni; i++ {
							ch.Items = append(ch.Items, rtcp.SourceDescriptionItem{Type: rtcp.SDESType(1 + (c+i)%8), Text: t.text(k % 7)})
							k++
						}
						p.Chunks = append(p.Chunks, ch)
					}
					return p
				})
			}
		}
	}
	// one and two chunks of two items: the two text lengths crossed fully (item boundaries against the
	// terminating octet and the padding), CNAME first or second
	for l0 := 0; l0 <= 8; l0++ {
		for l1 := 0; l1 <= 8; l1++ {
			for _, cnFirst := range []bool{true, false} {
				for _, nc := range []int{1, 2} {
					if nc == 2 && (!cnFirst || l0 > 4 || l1 > 4) {
						continue
					}
					l0, l1, cnFirst, nc := l0, l1, cnFirst, nc
					add("SourceDescription", fmt.Sprintf("chunks=%d,two-items,len=%d+%d,cname-first=%v", nc, l0, l1, cnFirst), func() rtcp.Packet {
						t := &tagger{}
						t0, t1 := rtcp.SDESCNAME, rtcp.SDESNote
						if !cnFirst {
							t0, t1 = rtcp.SDESTool, rtcp.SDESCNAME
						}
						p := &rtcp.SourceDescription{Chunks: []rtcp.SourceDescriptionChunk{{Source: t.u32(), Items: []rtcp.SourceDescriptionItem{{Type: t0, Text: t.text(l0)}, {Type: t1, Text: t.text(l1)}}}}}
						if nc == 2 {
							p.Chunks = append(p.Chunks, rtcp.SourceDescriptionChunk{Source: t.u32(), Items: []rtcp.SourceDescriptionItem{{Type: rtcp.SDESCNAME, Text: t.text(3)}}})
						}
						return p
					})
				}
			}
		}
	}
	// BYE
	for _, n := range counts {
		for _, l := range textLens {
			n, l := n, l
			add("Goodbye", fmt.Sprintf("sources=%d,reason=%d", n, l), func() rtcp.Packet {
				t := &tagger{}
				p := &rtcp.Goodbye{}
				for i := 0; i < n; i++ {
					p.Sources = append(p.Sources, t.u32())
				}
				p.Reason = t.text(l)
				return p
			})
		}
	}
	// APP
	for _, l := range ints(thorough, []int{0, 1, 2, 3, 4, 5, 6, 7, 8, 9, 15, 16, 17, 255, 256, 257}, []int{0, 1, 2, 3, 4, 5, 6, 7, 8, 9, 10, 11, 12, 13, 14, 15, 16, 17, 31, 32, 33, 63, 64, 65, 127, 128, 129, 255, 256, 257, 1023, 1024, 1025, 4095, 4096}) {
		l := l
		add("ApplicationDefined", fmt.Sprintf("data=%d", l), func() rtcp.Packet {
			t := &tagger{}
			return &rtcp.ApplicationDefined{SubType: 0x15, SSRC: t.u32(), Name: "NaMe", Data: t.bytes(l)}
		})
	}
	// NACK
	entryCounts := ints(thorough, []int{1, 2, 3, 7, 8, 9, 15, 16, 17, 31, 32, 63, 64, 65, 127, 128, 253},
		[]int{1, 2, 3, 4, 5, 6, 7, 8, 9, 10, 14, 15, 16, 17, 18, 30, 31, 32, 33, 62, 63, 64, 65, 66, 126, 127, 128, 129, 130, 190, 191, 192, 193, 251, 252, 253})
	// list sizes beyond one octet's worth (the header length field counts words in 16 bits; nothing in
	// RFC 4585 limits a feedback list to 253 entries), up to the largest a length field can express
	type nShape struct {
		n   int
		tag string
	}
	var listShapes []nShape
	for _, n := range entryCounts {
		listShapes = append(listShapes, nShape{n, ""})
	}
	for _, n := range ints(thorough, []int{254, 255, 256, 300}, []int{254, 255, 256, 257, 300, 511, 512, 1000}) {
		listShapes = append(listShapes, nShape{n, ""})
	}
	for _, n := range []int{16381, 16382, 16383, 32766, 65533} {
		listShapes = append(listShapes, nShape{n, "big:"})
	}
	for _, ls := range listShapes {
		n, tag := ls.n, ls.tag
		add("TransportLayerNack", fmt.Sprintf("%spairs=%d", tag, n), func() rtcp.Packet {
			t := &tagger{}
			p := &rtcp.TransportLayerNack{SenderSSRC: t.u32(), MediaSSRC: t.u32()}
			for i := 0; i < n; i++ {
				p.Nacks = append(p.Nacks, rtcp.NackPair{PacketID: t.u16(), LostPackets: rtcp.PacketBitmap(t.u16())})
			}
			return p
		})
	}
	add("RapidResynchronizationRequest", "", func() rtcp.Packet {
		t := &tagger{}
		return &rtcp.RapidResynchronizationRequest{SenderSSRC: t.u32(), MediaSSRC: t.u32()}
	})
	add("PictureLossIndication", "", func() rtcp.Packet {
		t := &tagger{}
		return &rtcp.PictureLossIndication{SenderSSRC: t.u32(), MediaSSRC: t.u32()}
	})
	// SLI
	for _, ls := range listShapes {
		n, tag := ls.n, ls.tag
		add("SliceLossIndication", fmt.Sprintf("%sentries=%d", tag, n), func() rtcp.Packet {
			t := &tagger{}
			p := &rtcp.SliceLossIndication{SenderSSRC: t.u32(), MediaSSRC: t.u32()}
			for i := 0; i < n; i++ {
				p.SLI = append(p.SLI, rtcp.SLIEntry{First: t.u16() & 0x1fff, Number: t.u16() & 0x1fff, Picture: t.u8() & 0x3f})
			}
			return p
		})
	}
	// FIR
	for _, ls := range listShapes {
		n, tag := ls.n, ls.tag
		if n > 32766 {
			continue // 8 octets per entry: beyond the length field
		}
		add("FullIntraRequest", fmt.Sprintf("%sentries=%d", tag, n), func() rtcp.Packet {
			t := &tagger{}
			p := &rtcp.FullIntraRequest{SenderSSRC: t.u32(), MediaSSRC: t.u32()}
			for i := 0; i < n; i++ {
				p.FIR = append(p.FIR, rtcp.FIREntry{SSRC: t.u32(), SequenceNumber: t.u8()})
			}
			return p
		})
	}
	// REMB
	rembN := []int{0, 1, 2, 3, 7, 8, 9, 15, 16, 17, 31, 32, 33, 63, 64, 65, 127, 128, 129, 254, 255}
	if thorough {
		rembN = nil
		for i := 0; i <= 255; i++ {
			rembN = append(rembN, i)
		}
	}
	for _, n := range rembN {
		n := n
		add("ReceiverEstimatedMaximumBitrate", fmt.Sprintf("ssrcs=%d", n), func() rtcp.Packet {
			t := &tagger{}
			p := &rtcp.ReceiverEstimatedMaximumBitrate{SenderSSRC: t.u32(), Bitrate: 8927168}
			for i := 0; i < n; i++ {
				p.SSRCs = append(p.SSRCs, t.u32())
			}
			return p
		})
	}
	// CCFB
	for _, nb := range ints(thorough, []int{0, 1, 2, 3}, []int{0, 1, 2, 3, 4}) {
		for _, nm := range ints(thorough, []int{0, 1, 2, 3, 4, 5, 7, 8, 15, 16, 17}, []int{0, 1, 2, 3, 4, 5, 6, 7, 8, 9, 10, 15, 16, 17, 31, 32, 33, 64, 127, 128, 255, 256}) {
			for _, begin := range []int{-1, 0, 65534, 65535, 65536 - 3} {
				if nb == 0 && (nm > 0 || begin != -1) {
					continue
				}
				nb, nm, begin := nb, nm, begin
				add("CCFeedbackReport", fmt.Sprintf("blocks=%d,metrics=%d,begin=%d", nb, nm, begin), func() rtcp.Packet {
					t := &tagger{}
					p := &rtcp.CCFeedbackReport{SenderSSRC: t.u32(), ReportTimestamp: t.u32()}
					for b := 0; b < nb; b++ {
						blk := rtcp.CCFeedbackReportBlock{MediaSSRC: t.u32(), BeginSequence: t.u16()}
						if begin >= 0 {
							blk.BeginSequence = uint16(begin)
						}
						n := nm
						if b > 0 {
							n = (nm + b) % 6 // neighbours of different size and parity
						}
						for m := 0; m < n; m++ {
							mb := rtcp.CCFeedbackMetricBlock{}
							if (m+b)%3 != 1 {
								mb = rtcp.CCFeedbackMetricBlock{Received: true, ECN: rtcp.ECN(t.u8() & 3), ArrivalTimeOffset: t.u16() & 0x1fff}
							}
							blk.MetricBlocks = append(blk.MetricBlocks, mb)
						}
						p.ReportBlocks = append(p.ReportBlocks, blk)
					}
					return p
				})
			}
		}
	}
	// TWCC: canonical structs for a family of status sequences and chunkings
	for _, s := range twccShapes(thorough) {
		s := s
		add("TransportLayerCC", s.name, func() rtcp.Packet { return s.build() })
	}
	// XR
	for _, b := range XRBlockAlphabet() {
		b := b
		add("ExtendedReport", "blocks=1:"+b.Name, func() rtcp.Packet {
			t := &tagger{}
			return &rtcp.ExtendedReport{SenderSSRC: t.u32(), Reports: []rtcp.ReportBlock{b.Make(t)}}
		})
	}
	// report blocks of 64 KiB and more (block length fields >= 0x3fff)
	for _, n := range []int{65532, 65536, 65540} {
		n := n
		add("ExtendedReport", fmt.Sprintf("big:blocks=unknown-%d-octets+rrt", n), func() rtcp.Packet {
			t := &tagger{}
			return &rtcp.ExtendedReport{SenderSSRC: t.u32(), Reports: []rtcp.ReportBlock{
				&rtcp.UnknownReportBlock{XRHeader: rtcp.XRHeader{BlockType: 9, TypeSpecific: rtcp.TypeSpecificField(t.u8())}, Bytes: t.bytes(n)},
				&rtcp.ReceiverReferenceTimeReportBlock{NTPTimestamp: t.u64()}}}
		})
	}
	for _, n := range []int{16380, 16381, 16382} {
		n := n
		add("ExtendedReport", fmt.Sprintf("big:blocks=rrt+receipt-times-%d", n), func() rtcp.Packet {
			t := &tagger{}
			b := &rtcp.PacketReceiptTimesReportBlock{T: 3, SSRC: t.u32(), BeginSeq: t.u16(), EndSeq: t.u16(), ReceiptTime: make([]uint32, n)}
			for i := range b.ReceiptTime {
				b.ReceiptTime[i] = uint32(i)*2654435761 + 1
			}
			return &rtcp.ExtendedReport{SenderSSRC: t.u32(), Reports: []rtcp.ReportBlock{&rtcp.ReceiverReferenceTimeReportBlock{NTPTimestamp: t.u64()}, b}}
		})
	}
	// list-bearing block kinds with more than 255 words (block length beyond one octet) and beyond 64 KiB
	for _, n := range []int{600, 40000} { // chunk counts (even: aligned blocks)
		n := n
		add("ExtendedReport", fmt.Sprintf("big:blocks=loss-rle-%d-chunks+rrt", n), func() rtcp.Packet {
			t := &tagger{}
			b := &rtcp.LossRLEReportBlock{T: 5, SSRC: t.u32(), BeginSeq: t.u16(), EndSeq: t.u16(), Chunks: make([]rtcp.Chunk, n)}
			for i := range b.Chunks {
				b.Chunks[i] = rtcp.Chunk(uint16(i)*40503 | 1)
			}
			return &rtcp.ExtendedReport{SenderSSRC: t.u32(), Reports: []rtcp.ReportBlock{b, &rtcp.ReceiverReferenceTimeReportBlock{NTPTimestamp: t.u64()}}}
		})
		add("ExtendedReport", fmt.Sprintf("big:blocks=rrt+dup-rle-%d-chunks", n), func() rtcp.Packet {
			t := &tagger{}
			b := &rtcp.DuplicateRLEReportBlock{T: 9, SSRC: t.u32(), BeginSeq: t.u16(), EndSeq: t.u16(), Chunks: make([]rtcp.Chunk, n)}
			for i := range b.Chunks {
				b.Chunks[i] = rtcp.Chunk(uint16(i)*25173 | 1)
			}
			return &rtcp.ExtendedReport{SenderSSRC: t.u32(), Reports: []rtcp.ReportBlock{&rtcp.ReceiverReferenceTimeReportBlock{NTPTimestamp: t.u64()}, b}}
		})
	}
	for _, n := range []int{100, 6000} { // DLRR sub-blocks of 12 octets
		n := n
		add("ExtendedReport", fmt.Sprintf("big:blocks=dlrr-%d+rrt", n), func() rtcp.Packet {
			t := &tagger{}
			b := &rtcp.DLRRReportBlock{}
			for i := 0; i < n; i++ {
				b.Reports = append(b.Reports, rtcp.DLRRReport{SSRC: 0x80000000 + uint32(i), LastRR: uint32(i)*2654435761 + 1, DLRR: uint32(i)*40503 + 7})
			}
			return &rtcp.ExtendedReport{SenderSSRC: t.u32(), Reports: []rtcp.ReportBlock{b, &rtcp.ReceiverReferenceTimeReportBlock{NTPTimestamp: t.u64()}}}
		})
	}
	add("ExtendedReport", "blocks=0", func() rtcp.Packet {
		t := &tagger{}
		return &rtcp.ExtendedReport{SenderSSRC: t.u32()}
	})
	add("ExtendedReport", "blocks=all-kinds", func() rtcp.Packet {
		t := &tagger{}
		p := &rtcp.ExtendedReport{SenderSSRC: t.u32()}
		for _, b := range XRBlockAlphabet() {
			if b.Core {
				p.Reports = append(p.Reports, b.Make(t))
			}
		}
		return p
	})
	// Raw: well-framed packets with an unregistered (PT, FMT)
	for _, pf := range [][2]int{{0, 0}, {192, 1}, {199, 31}, {208, 0}, {255, 31}, {205, 0}, {205, 31}, {205, 2}, {206, 0}, {206, 3}, {206, 31}, {206, 5}} {
		for _, words := range []int{0, 1, 2, 5} {
			for _, pad := range []bool{false, true} {
				pf, words, pad := pf, words, pad
				add("RawPacket", fmt.Sprintf("pt=%d,fmt=%d,words=%d,p=%v", pf[0], pf[1], words, pad), func() rtcp.Packet {
					t := &tagger{}
					b := []byte{0x80 | byte(pf[1]), byte(pf[0]), 0, byte(words)}
					if pad {
						b[0] |= 0x20
					}
					b = append(b, t.bytes(4*words)...)
					if pad && words >= 1 {
						b[len(b)-1] = 4 // RFC 3550 6.4.1: with P set the last octet counts the padding octets
					}
					r := rtcp.RawPacket(b)
					return &r
				})
			}
		}
	}
	// Compound
	for i, mk := range compoundShapes() {
		mk := mk
		add("CompoundPacket", fmt.Sprintf("shape=%d", i), func() rtcp.Packet { c := mk(); return &c })
	}
	return out
}

func cnameSDES(t *tagger) *rtcp.SourceDescription {
	return &rtcp.SourceDescription{Chunks: []rtcp.SourceDescriptionChunk{{Source: t.u32(), Items: []rtcp.SourceDescriptionItem{{Type: rtcp.SDESCNAME, Text: "cname@" + t.text(3)}}}}}
}

func compoundShapes() []func() rtcp.CompoundPacket {
	rr := func(t *tagger) *rtcp.ReceiverReport {
		return &rtcp.ReceiverReport{SSRC: t.u32(), Reports: []rtcp.ReceptionReport{t.report()}}
	}
	sr := func(t *tagger) *rtcp.SenderReport {
		return &rtcp.SenderReport{SSRC: t.u32(), NTPTime: t.u64(), RTPTime: t.u32(), PacketCount: t.u32(), OctetCount: t.u32(), Reports: []rtcp.ReceptionReport{t.report(), t.report()}}
	}
	return []func() rtcp.CompoundPacket{
		func() rtcp.CompoundPacket { t := &tagger{}; return rtcp.CompoundPacket{rr(t), cnameSDES(t)} },
		func() rtcp.CompoundPacket {
			t := &tagger{}
			return rtcp.CompoundPacket{sr(t), cnameSDES(t), &rtcp.Goodbye{Sources: []uint32{t.u32()}, Reason: "bye"}}
		},
		func() rtcp.CompoundPacket {
			t := &tagger{}
			return rtcp.CompoundPacket{rr(t), rr(t), cnameSDES(t), &rtcp.PictureLossIndication{SenderSSRC: t.u32(), MediaSSRC: t.u32()},
				&rtcp.TransportLayerNack{SenderSSRC: t.u32(), MediaSSRC: t.u32(), Nacks: []rtcp.NackPair{{PacketID: t.u16(), LostPackets: 5}}},
				&rtcp.ReceiverEstimatedMaximumBitrate{SenderSSRC: t.u32(), Bitrate: 262144, SSRCs: []uint32{t.u32()}}}
		},
		func() rtcp.CompoundPacket {
			t := &tagger{}
			// members of 64 KiB and more inside a compound
			return rtcp.CompoundPacket{rr(t), cnameSDES(t), &rtcp.ApplicationDefined{SubType: 1, SSRC: t.u32(), Name: "bigA", Data: t.bytes(65000)},
				&rtcp.TransportLayerNack{SenderSSRC: t.u32(), MediaSSRC: t.u32(), Nacks: make([]rtcp.NackPair, 17000)}, &rtcp.PictureLossIndication{SenderSSRC: t.u32(), MediaSSRC: t.u32()}}
		},
		func() rtcp.CompoundPacket {
			t := &tagger{}
			// first member without report blocks: its destination list is empty
			return rtcp.CompoundPacket{&rtcp.ReceiverReport{SSRC: t.u32()}, cnameSDES(t), &rtcp.PictureLossIndication{SenderSSRC: t.u32(), MediaSSRC: t.u32()}}
		},
		func() rtcp.CompoundPacket {
			t := &tagger{}
			return rtcp.CompoundPacket{sr(t), cnameSDES(t), &rtcp.ExtendedReport{SenderSSRC: t.u32(), Reports: []rtcp.ReportBlock{&rtcp.ReceiverReferenceTimeReportBlock{NTPTimestamp: t.u64()}}},
				&rtcp.ApplicationDefined{SubType: 3, SSRC: t.u32(), Name: "abcd", Data: []byte{1, 2, 3, 4}}, &rtcp.FullIntraRequest{SenderSSRC: t.u32(), MediaSSRC: t.u32(), FIR: []rtcp.FIREntry{{SSRC: t.u32(), SequenceNumber: 9}}}}
		},
	}
}

// XRBlock is one element of the XR block alphabet.
type XRBlock struct {
	Name string
	Core bool // one per kind, used for the all-kinds packet
	Make func(t *tagger) rtcp.ReportBlock
}

// Tagger exposes the tag generator to other packages.
type Tagger = tagger

// NewTagger returns a fresh tag generator.
func NewTagger() *Tagger { return &tagger{} }

// XRBlockAlphabet lists report blocks of all 7 kinds with list lengths 0..3
// (even chunk counts, as RFC 3611 requires for alignment) and unknown kinds.
func XRBlockAlphabet() []XRBlock {
	var out []XRBlock
	for _, n := range []int{0, 2, 4, 10} {
		n := n
		out = append(out, XRBlock{Name: fmt.Sprintf("LossRLE,chunks=%d", n), Core: n == 2, Make: func(t *tagger) rtcp.ReportBlock {
			b := &rtcp.LossRLEReportBlock{T: t.u8() & 0xf, SSRC: t.u32(), BeginSeq: t.u16(), EndSeq: t.u16()}
			for i := 0; i < n; i++ {
				b.Chunks = append(b.Chunks, rtcp.Chunk(t.u16()))
			}
			return b
		}})
		out = append(out, XRBlock{Name: fmt.Sprintf("DuplicateRLE,chunks=%d", n), Core: n == 2, Make: func(t *tagger) rtcp.ReportBlock {
			b := &rtcp.DuplicateRLEReportBlock{T: t.u8() & 0xf, SSRC: t.u32(), BeginSeq: t.u16(), EndSeq: t.u16()}
			for i := 0; i < n; i++ {
				b.Chunks = append(b.Chunks, rtcp.Chunk(t.u16()))
			}
			return b
		}})
	}
	for _, n := range []int{0, 1, 2, 3, 9} {
		n := n
		out = append(out, XRBlock{Name: fmt.Sprintf("PacketReceiptTimes,times=%d", n), Core: n == 3, Make: func(t *tagger) rtcp.ReportBlock {
			b := &rtcp.PacketReceiptTimesReportBlock{T: t.u8() & 0xf, SSRC: t.u32(), BeginSeq: t.u16(), EndSeq: t.u16()}
			for i := 0; i < n; i++ {
				b.ReceiptTime = append(b.ReceiptTime, t.u32())
			}
			return b
		}})
		out = append(out, XRBlock{Name: fmt.Sprintf("DLRR,reports=%d", n), Core: n == 2, Make: func(t *tagger) rtcp.ReportBlock {
			b := &rtcp.DLRRReportBlock{}
			for i := 0; i < n; i++ {
				b.Reports = append(b.Reports, rtcp.DLRRReport{SSRC: t.u32(), LastRR: t.u32(), DLRR: t.u32()})
			}
			return b
		}})
	}
	out = append(out, XRBlock{Name: "ReceiverReferenceTime", Core: true, Make: func(t *tagger) rtcp.ReportBlock {
		return &rtcp.ReceiverReferenceTimeReportBlock{NTPTimestamp: t.u64()}
	}})
	for f := 0; f < 8; f++ {
		for _, toh := range []int{0, 1, 2, 3} {
			if f != 0 && f != 7 && f != 5 && toh != 1 {
				continue
			}
			f, toh := f, toh
			out = append(out, XRBlock{Name: fmt.Sprintf("StatisticsSummary,ldj=%d,toh=%d", f, toh), Core: f == 5 && toh == 2, Make: func(t *tagger) rtcp.ReportBlock {
				return &rtcp.StatisticsSummaryReportBlock{LossReports: f&4 != 0, DuplicateReports: f&2 != 0, JitterReports: f&1 != 0, TTLorHopLimit: rtcp.TTLorHopLimitType(toh),
					SSRC: t.u32(), BeginSeq: t.u16(), EndSeq: t.u16(), LostPackets: t.u32(), DupPackets: t.u32(), MinJitter: t.u32(), MaxJitter: t.u32(), MeanJitter: t.u32(), DevJitter: t.u32(),
					MinTTLOrHL: t.u8(), MaxTTLOrHL: t.u8(), MeanTTLOrHL: t.u8(), DevTTLOrHL: t.u8()}
			}})
		}
	}
	out = append(out, XRBlock{Name: "VoIPMetrics", Core: true, Make: func(t *tagger) rtcp.ReportBlock {
		return &rtcp.VoIPMetricsReportBlock{SSRC: t.u32(), LossRate: t.u8(), DiscardRate: t.u8(), BurstDensity: t.u8(), GapDensity: t.u8(), BurstDuration: t.u16(), GapDuration: t.u16(),
			RoundTripDelay: t.u16(), EndSystemDelay: t.u16(), SignalLevel: t.u8(), NoiseLevel: t.u8(), RERL: t.u8(), Gmin: t.u8(), RFactor: t.u8(), ExtRFactor: t.u8(), MOSLQ: t.u8(), MOSCQ: t.u8(),
			RXConfig: t.u8(), JBNominal: t.u16(), JBMaximum: t.u16(), JBAbsMax: t.u16()}
	}})
	for _, bt := range []uint8{0, 8, 255} {
		for _, n := range []int{0, 4, 8} {
			bt, n := bt, n
			out = append(out, XRBlock{Name: fmt.Sprintf("Unknown,bt=%d,bytes=%d", bt, n), Core: bt == 8 && n == 4, Make: func(t *tagger) rtcp.ReportBlock {
				return &rtcp.UnknownReportBlock{XRHeader: rtcp.XRHeader{BlockType: rtcp.BlockTypeType(bt), TypeSpecific: rtcp.TypeSpecificField(t.u8())}, Bytes: t.bytes(n)}
			}})
		}
	}
	return out
}

// Domain enumerates D: for every builder the tagged base, then every single
// field deviating over its alphabet, then (thorough, small shapes) every pair
// of fields over a reduced alphabet. yield returns false to stop.
func Domain(thorough bool, mine func() bool, yield func(V) bool) {
	for _, b := range Builders(thorough) {
		if !DomainOf(b, thorough, mine, yield) {
			return
		}
	}
}

// DomainOf enumerates the values of one builder. mine (may be nil) is asked
// once per block (the base value; each deviated leaf; each leaf pair) whether
// the caller owns it, so that workers skip foreign blocks without building them.
func DomainOf(b Builder, thorough bool, mine func() bool, yield func(V) bool) bool {
	if mine == nil {
		mine = func() bool { return true }
	}
	if mine() {
		base := b.Make()
		if !yield(V{P: base, Type: b.Type, Shape: b.Shape}) {
			return false
		}
	}
	if b.Type == "CompoundPacket" || b.Type == "RawPacket" || strings.HasPrefix(b.Shape, "big:") {
		return true // containers, raw frames and the 64 KiB shapes: base value only
	}
	leaves := Leaves(b.Make())
	if len(leaves) > 40 {
		for i := range leaves {
			leaves[i].big = true
		}
	}
	// large shapes: deviate the first two, a middle and the last element's fields only (at every nesting level)
	idx := leafSubset(leaves)
	for _, i := range idx {
		if !mine() {
			continue
		}
		for _, a := range leaves[i].alphabet(thorough) {
			p := b.Make()
			ls := Leaves(p)
			d := ls[i].set(a)
			if !yield(V{P: p, Type: b.Type, Shape: b.Shape, Dev: " " + d}) {
				return false
			}
		}
	}
	if thorough && len(leaves) <= 16 {
		red := []uint64{0, 1}
		for i := 0; i < len(leaves); i++ {
			for j := i + 1; j < len(leaves); j++ {
				if !mine() {
					continue
				}
				ai := reduced(leaves[i])
				aj := reduced(leaves[j])
				_ = red
				for _, x := range ai {
					for _, y := range aj {
						p := b.Make()
						ls := Leaves(p)
						d1 := ls[i].set(x)
						d2 := ls[j].set(y)
						if !yield(V{P: p, Type: b.Type, Shape: b.Shape, Dev: " " + d1 + " " + d2}) {
							return false
						}
					}
				}
			}
		}
	}
	return true
}

func reduced(l Leaf) []uint64 {
	a := l.alphabet(false)
	if len(a) <= 3 {
		return a
	}
	return []uint64{a[0], a[2], a[len(a)-1]}
}

// leafSubset keeps all leaves of small values; for long lists it keeps the
// fields of the first two, a middle and the last element (the loops are
// uniform in the element index) plus all top-level fields.
func leafSubset(ls []Leaf) []int {
	if len(ls) <= 64 {
		out := make([]int, len(ls))
		for i := range ls {
			out[i] = i
		}
		return out
	}
	// maximal index at every list position, keyed by the path prefix up to that bracket
	maxIdx := map[string]int{}
	for _, l := range ls {
		for _, pi := range allIndices(l.Path) {
			if pi.i > maxIdx[pi.prefix] {
				maxIdx[pi.prefix] = pi.i
			}
		}
	}
	var out []int
	for k, l := range ls {
		keep := true
		for _, pi := range allIndices(l.Path) {
			m := maxIdx[pi.prefix]
			if !(pi.i <= 1 || pi.i == m/2 || pi.i == m) {
				keep = false
				break
			}
		}
		if keep {
			out = append(out, k)
		}
	}
	return out
}

type pathIndex struct {
	prefix string
	i      int
}

// allIndices lists every [i] of a path with the prefix leading to it.
func allIndices(path string) []pathIndex {
	var out []pathIndex
	for o := 0; o < len(path); o++ {
		if path[o] != '[' {
			continue
		}
		c := strings.IndexByte(path[o:], ']')
		n := 0
		fmt.Sscanf(path[o+1:o+c], "%d", &n)
		out = append(out, pathIndex{prefix: path[:o], i: n})
		o += c
	}
	return out
}

func firstIndex(path string) (string, int, bool) {
	o := strings.IndexByte(path, '[')
	if o < 0 {
		return "", 0, false
	}
	c := strings.IndexByte(path[o:], ']')
	n := 0
	fmt.Sscanf(path[o+1:o+c], "%d", &n)
	return path[:o], n, true
}

// Core is the subset of D used as seeds for byte-level exploration: every
// builder's base value once.
func Core(thorough bool, yield func(V) bool) {
	for _, b := range Builders(thorough) {
		if !yield(V{P: b.Make(), Type: b.Type, Shape: b.Shape}) {
			return
		}
	}
}

// Aliased enumerates, for one builder, every value in which two 32-bit leaves
// (SSRCs, sources, timestamps) carry the SAME value — the tagged base keeps all
// fields distinct, so duplicate list entries would otherwise never occur.
func Aliased(b Builder, mine func() bool, yield func(V) bool) bool {
	if b.Type == "CompoundPacket" || b.Type == "RawPacket" || strings.HasPrefix(b.Shape, "big:") {
		return true
	}
	ls := Leaves(b.Make())
	var idx []int
	for i, l := range ls {
		if l.Kind == "uint" && l.Bits == 32 {
			idx = append(idx, i)
		}
	}
	if len(idx) > 40 {
		idx = idx[:40]
	}
	for a := 0; a < len(idx); a++ {
		for c := a + 1; c < len(idx); c++ {
			if mine != nil && !mine() {
				continue
			}
			p := b.Make()
			pl := Leaves(p)
			v := pl[idx[a]].v.Uint()
			pl[idx[c]].v.SetUint(v)
			if !yield(V{P: p, Type: b.Type, Shape: b.Shape, Dev: fmt.Sprintf(" %s=%s(=%#x)", pl[idx[c]].Path, pl[idx[a]].Path, v)}) {
				return false
			}
		}
	}
	return true
}
