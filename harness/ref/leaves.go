package ref

import (
	"fmt"
	"math"
	"reflect"
	"strings"

	"github.com/pion/rtcp"
)

// Leaf is one settable scalar (or opaque byte string) inside a packet value.
type Leaf struct {
	Path string // e.g. .Reports[1].Jitter
	Key  string // StructType.Field, used for width tables
	Kind string // uint | bool | float | string | bytes
	Bits int    // wire width for uint leaves
	v    reflect.Value
	knownXR bool // leaf of the (derived) XRHeader of a defined XR block kind
	big     bool // the value has many leaves: complete 13-bit domains are not swept
}

// widths of fields narrower on the wire than their Go type (well-formed
// domain), or with other restrictions.
var wireBits = map[string]int{
	"ReceptionReport.TotalLost":                   24,
	"SLIEntry.First":                              13,
	"SLIEntry.Number":                             13,
	"SLIEntry.Picture":                            6,
	"ApplicationDefined.SubType":                  5,
	"TransportLayerCC.ReferenceTime":              24,
	"CCFeedbackMetricBlock.ECN":                   2,
	"CCFeedbackMetricBlock.ArrivalTimeOffset":     13,
	"LossRLEReportBlock.T":                        4,
	"DuplicateRLEReportBlock.T":                   4,
	"PacketReceiptTimesReportBlock.T":             4,
	"StatisticsSummaryReportBlock.TTLorHopLimit": 2,
}

// fields that are structural or derived and therefore not deviated generically
var skipKeys = map[string]bool{
	"TransportLayerCC.PacketStatusCount": true,
	"Header.Padding":                    true,
	"Header.Count":                      true,
	"Header.Type":                       true,
	"Header.Length":                     true,
	"RunLengthChunk.Type":               true,
	"RunLengthChunk.PacketStatusSymbol": true,
	"RunLengthChunk.RunLength":          true,
	"StatusVectorChunk.Type":            true,
	"StatusVectorChunk.SymbolSize":      true,
	"StatusVectorChunk.SymbolList":      true,
	"RecvDelta.Type":                    true,
	"RecvDelta.Delta":                   true,
	"CCFeedbackMetricBlock.Received":    true,
}

// Leaves lists the deviable leaves of a packet in a deterministic order.
func Leaves(p rtcp.Packet) []Leaf {
	var out []Leaf
	walkLeaves(reflect.ValueOf(p), "", "", &out, false)
	return out
}

func walkLeaves(v reflect.Value, path, key string, out *[]Leaf, inKnownXR bool) {
	switch v.Kind() {
	case reflect.Ptr, reflect.Interface:
		if v.IsNil() {
			return
		}
		walkLeaves(v.Elem(), path, key, out, inKnownXR)
	case reflect.Struct:
		t := v.Type()
		// the XRHeader of the seven defined block kinds is derived: whatever the caller (or an
		// earlier Marshal / Unmarshal) left in it must be overwritten, so stale values are part of D
		_ = inKnownXR
		// a metric block that is not received has no ECN / offset (canonical form)
		if t.Name() == "CCFeedbackMetricBlock" && !v.FieldByName("Received").Bool() {
			return
		}
		for i := 0; i < t.NumField(); i++ {
			f := t.Field(i)
			if f.Name == "_" || !v.Field(i).CanSet() {
				continue
			}
			k := t.Name() + "." + f.Name
			if skipKeys[k] {
				continue
			}
			walkLeaves(v.Field(i), path+"."+f.Name, k, out, knownXR[t] || (t == xrHeaderT && inKnownXR))
		}
	case reflect.Slice:
		if v.Type().Elem().Kind() == reflect.Uint8 {
			if v.Len() > 0 {
				*out = append(*out, Leaf{Path: path, Key: key, Kind: "bytes", v: v})
			}
			return
		}
		for i := 0; i < v.Len(); i++ {
			walkLeaves(v.Index(i), fmt.Sprintf("%s[%d]", path, i), key, out, inKnownXR)
		}
	case reflect.Uint8, reflect.Uint16, reflect.Uint32, reflect.Uint64:
		bits := v.Type().Bits()
		if w, ok := wireBits[key]; ok {
			bits = w
		}
		*out = append(*out, Leaf{Path: path, Key: key, Kind: "uint", Bits: bits, v: v, knownXR: inKnownXR && strings.HasPrefix(key, "XRHeader.")})
	case reflect.Bool:
		*out = append(*out, Leaf{Path: path, Key: key, Kind: "bool", v: v})
	case reflect.Float32:
		*out = append(*out, Leaf{Path: path, Key: key, Kind: "float", v: v})
	case reflect.String:
		if v.Len() > 0 {
			*out = append(*out, Leaf{Path: path, Key: key, Kind: "string", v: v})
		}
	}
}

// Reseed rewrites every free leaf of p as a function of n: other numbers in every 16/32/64-bit scalar that
// is not structural, other text (same length) in every string. Different n give different values of the
// same shape (used to put many distinct values through caches).
func Reseed(p rtcp.Packet, n int) {
	for idx, l := range Leaves(p) {
		h := uint64(n+1)*0x9e3779b97f4a7c15 + uint64(idx)*0xc2b2ae3d27d4eb4f
		h ^= h >> 29
		switch l.Kind {
		case "uint":
			if l.Bits >= 16 && l.Bits == l.v.Type().Bits() && !skipKeys[l.Key] && !l.knownXR {
				l.v.SetUint((l.v.Uint() ^ h) & (uint64(1)<<uint(l.Bits) - 1))
			}
		case "string":
			b := []byte(l.v.String())
			for i := range b {
				b[i] = "abcdefghijklmnopqrstuvwxyz0123456789"[(h>>uint(5*(i%12))+uint64(i))%36]
			}
			l.v.SetString(string(b))
		}
	}
}

// StringLeaves returns the values of all string leaves of p in order.
func StringLeaves(p rtcp.Packet) []string {
	var out []string
	for _, l := range Leaves(p) {
		if l.Kind == "string" {
			out = append(out, string(append([]byte{}, l.v.String()...)))
		}
	}
	return out
}

// Perturb flips bits in every 32-bit scalar leaf (SSRCs, timestamps), so that two values built from the
// same tagged base no longer carry the same numbers.
func Perturb(p rtcp.Packet) {
	for _, l := range Leaves(p) {
		if l.Kind == "uint" && l.Bits == 32 && !skipKeys[l.Key] {
			l.v.SetUint(l.v.Uint() ^ 0x00ff00ff)
		}
	}
}

// OverWidth sets every leaf whose Go type is wider than its wire field to a value the wire cannot
// hold (mode 0: all ones of the Go type; mode 1: exactly 1<<width) and returns how many leaves it
// changed. Such values are outside the well-formed domain; they are used where a property speaks
// about all packet values (encoders must not repair their argument in place).
func OverWidth(p rtcp.Packet, mode int) int {
	n := 0
	for _, l := range Leaves(p) {
		if l.Kind != "uint" || l.Bits >= l.v.Type().Bits() {
			continue
		}
		if mode == 0 {
			l.v.SetUint(uint64(1)<<uint(l.v.Type().Bits()) - 1)
		} else {
			l.v.SetUint(uint64(1) << uint(l.Bits))
		}
		n++
	}
	return n
}

// OverWidthEach builds, for every leaf whose Go type is wider than its wire field (the first, a middle
// and the last occurrence of each field, or every occurrence when all is set), the packet with just that leaf set to 1<<width and
// to the largest value of its Go type.
func OverWidthEach(mk func() rtcp.Packet, all bool, yield func(p rtcp.Packet, path, key string, v uint64)) {
	base := Leaves(mk())
	byKey := map[string][]int{}
	var keys []string
	for i, l := range base {
		if l.Kind != "uint" || l.Bits >= l.v.Type().Bits() {
			continue
		}
		if _, ok := byKey[l.Key]; !ok {
			keys = append(keys, l.Key)
		}
		byKey[l.Key] = append(byKey[l.Key], i)
	}
	for _, k := range keys {
		idx := byKey[k]
		pick := map[int]bool{idx[0]: true, idx[len(idx)/2]: true, idx[len(idx)-1]: true}
		for _, i := range idx {
			if !pick[i] && !all {
				continue
			}
			for mode := 0; mode < 2; mode++ {
				p := mk()
				l := Leaves(p)[i]
				v := uint64(1) << uint(l.Bits)
				if mode == 1 {
					v = uint64(1)<<uint(l.v.Type().Bits()) - 1
				}
				l.v.SetUint(v)
				yield(p, l.Path, l.Key, v)
			}
		}
	}
}

// NAlt is the number of alternative values of the leaf in the given tier.
func (l Leaf) alphabet(thorough bool) []uint64 {
	switch l.Kind {
	case "bool":
		return []uint64{0, 1}
	case "bytes", "string":
		return []uint64{0, 1, 2, 3, 4}
	case "float":
		return floatAlphabet
	}
	w := uint(l.Bits)
	max := uint64(1)<<w - 1
	if w == 64 {
		max = math.MaxUint64
	}
	lo := uint64(0)
	if l.Key == "SourceDescriptionItem.Type" {
		lo = 1
	}
	if l.Key == "XRHeader.BlockType" && !l.knownXR { // unknown block kinds keep their type: only unregistered values
		out := []uint64{0, 8, 9, 127, 128, 254, 255}
		if thorough {
			out = out[:0]
			out = append(out, 0)
			for v := uint64(8); v < 256; v++ {
				out = append(out, v)
			}
		}
		return out
	}
	if w <= 8 || (thorough && w <= 13 && !l.big) {
		var out []uint64
		for v := lo; v <= max; v++ {
			out = append(out, v)
		}
		return out
	}
	seen := map[uint64]bool{}
	var out []uint64
	add := func(v uint64) {
		v &= max
		if v < lo || seen[v] {
			return
		}
		seen[v] = true
		out = append(out, v)
	}
	add(0)
	add(1)
	add(max)
	add(1 << (w - 1))
	add(1<<(w-1) - 1)
	for k := uint(0); k < w; k++ {
		add(1 << k)
	}
	if thorough || w <= 16 {
		for k := uint(0); k < w; k++ {
			add(^(uint64(1) << k))
			add(1<<k - 1)
			add(1<<k + 1)
		}
		add(0x5555555555555555)
		add(0xaaaaaaaaaaaaaaaa)
		add(0x0123456789abcdef)
		add(0xfedcba9876543210)
	}
	return out
}

var floatAlphabet = func() []uint64 {
	vals := []float32{0, 1, 2, 999.5, 1000, 262143, 262143.5, 262144, 262145, 524287, 524288, 8927168, 8927169, 1e9, 1e12, 1e15, 1e18, 9.9e20, 1e21, 2.4e24,
		float32(0x3FFFF) * (1 << 40), float32(float64(0x3FFFF) * (1 << 63)), 3e38, math.MaxFloat32, math.SmallestNonzeroFloat32, 0.5}
	var out []uint64
	for _, f := range vals {
		out = append(out, uint64(math.Float32bits(f)))
	}
	return out
}()

// Set assigns the a-th alphabet value.
func (l Leaf) set(a uint64) string {
	switch l.Kind {
	case "uint":
		l.v.SetUint(a)
		return fmt.Sprintf("%s=%#x", l.Path, a)
	case "bool":
		l.v.SetBool(a == 1)
		return fmt.Sprintf("%s=%v", l.Path, a == 1)
	case "float":
		l.v.SetFloat(float64(math.Float32frombits(uint32(a))))
		return fmt.Sprintf("%s=%g", l.Path, math.Float32frombits(uint32(a)))
	case "bytes":
		n := l.v.Len()
		b := make([]byte, n)
		fillPattern(b, a)
		l.v.SetBytes(b)
		return fmt.Sprintf("%s=pattern%d", l.Path, a)
	case "string":
		n := l.v.Len()
		b := make([]byte, n)
		fillPattern(b, a)
		l.v.SetString(string(b))
		return fmt.Sprintf("%s=pattern%d", l.Path, a)
	}
	return ""
}

func fillPattern(b []byte, a uint64) {
	for i := range b {
		switch a {
		case 0:
			b[i] = 0
		case 1:
			b[i] = 0xff
		case 2:
			b[i] = byte(0x80 + i)
		case 4:
			// valid multi-byte UTF-8 (two-octet runes), so that octet count != rune count
			if i%2 == 0 && i+1 < len(b) {
				b[i] = 0xc3
			} else if i%2 == 1 {
				b[i] = byte(0xa0 + i%0x20)
			} else {
				b[i] = 'z'
			}
		default:
			b[i] = byte('A' + i%26)
		}
	}
}
