package ref

import (
	"encoding/binary"
	"fmt"
	"math"

	"github.com/pion/rtcp"
)

// Variant is one RFC-valid encoding that the library's own encoder does not
// necessarily produce, with the value the specification assigns to it — or an
// encoding that must be rejected.
type Variant struct {
	Name   string
	Type   string
	B      []byte
	Want   rtcp.Packet // nil when Reject
	Reject bool
}

// Variants returns the small seed set (level 0).
func Variants(thorough bool) []Variant {
	var out []Variant
	VariantStream(0, func(v Variant) bool { out = append(out, v); return true })
	return out
}

func hdr(p bool, count, pt int, words int) []byte {
	b0 := byte(0x80 | count)
	if p {
		b0 |= 0x20
	}
	return []byte{b0, byte(pt), byte(words >> 8), byte(words)}
}

func fin(b []byte) []byte {
	binary.BigEndian.PutUint16(b[2:], uint16(len(b)/4-1))
	return b
}

// statusSeqs enumerates all status sequences of length 0..n over {0,1,2}.
func statusSeqs(n int, yield func([]uint8) bool) bool {
	cur := []uint8{}
	var rec func() bool
	rec = func() bool {
		if !yield(append([]uint8{}, cur...)) {
			return false
		}
		if len(cur) == n {
			return true
		}
		for s := uint8(0); s < 3; s++ {
			cur = append(cur, s)
			if !rec() {
				return false
			}
			cur = cur[:len(cur)-1]
		}
		return true
	}
	return rec()
}

// VariantStream enumerates the C04 encoding variants. level 0: seed set,
// 1: quick, 2: thorough.
func VariantStream(level int, yield func(Variant) bool) bool {
	// ---- 1. alternative TWCC chunkings
	twccLen := []int{3, 5, 7}[level]
	if level == 0 {
		for _, st := range [][]uint8{{1, 1, 0}, {1, 2, 0, 1}, {0, 0, 0}} {
			if !twccVariants(st, 0, yield) {
				return false
			}
		}
	} else {
		ok := statusSeqs(twccLen, func(st []uint8) bool { return twccVariants(st, 0, yield) })
		if !ok {
			return false
		}
	}
	// ---- 2. unnormalised REMB pairs
	type me struct {
		m uint32
		e int
	}
	var vals []me
	for _, m := range []uint32{1, 3, 0x155, 0x20000, 0x3ffff, 0x2aaaa, 0x10001} {
		for _, e := range []int{0, 1, 5, 17, 18, 40, 62, 63} {
			vals = append(vals, me{m, e})
		}
	}
	if level == 0 {
		vals = vals[:6]
	}
	for _, v := range vals {
		// all forms (m*2^j, e-j) and (m/2^j, e+j)
		for j := -17; j <= 17; j++ {
			var m2 uint64
			e2 := v.e - j
			if j >= 0 {
				m2 = uint64(v.m) << uint(j)
			} else {
				if v.m&(1<<uint(-j)-1) != 0 {
					continue
				}
				m2 = uint64(v.m) >> uint(-j)
			}
			if m2 == 0 || m2 > 0x3ffff || e2 < 0 || e2 > 63 {
				continue
			}
			for _, ns := range []int{0, 2} {
				b := hdr(false, 15, 206, 0)
				b = binary.BigEndian.AppendUint32(b, 0x902f9e2e)
				b = binary.BigEndian.AppendUint32(b, 0)
				b = append(b, "REMB"...)
				b = append(b, byte(ns), byte(e2<<2)|byte(m2>>16), byte(m2>>8), byte(m2))
				want := &rtcp.ReceiverEstimatedMaximumBitrate{SenderSSRC: 0x902f9e2e, Bitrate: float32(math.Ldexp(float64(v.m), v.e))}
				for i := 0; i < ns; i++ {
					b = binary.BigEndian.AppendUint32(b, 0xa0b0c0d0+uint32(i))
					want.SSRCs = append(want.SSRCs, 0xa0b0c0d0+uint32(i))
				}
				if !yield(Variant{Name: fmt.Sprintf("REMB m=%d e=%d as (%d,%d) ssrcs=%d", v.m, v.e, m2, e2, ns), Type: "ReceiverEstimatedMaximumBitrate", B: fin(b), Want: want}) {
					return false
				}
			}
		}
	}
	// ---- 3. padded APP packets
	for dl := 0; dl <= []int{5, 9, 17}[level]; dl++ {
		for _, pad := range []int{0, 1, 2, 3, 4, 5, 6, 7, 8, 12} {
			if (dl+pad)%4 != 0 {
				continue
			}
			for _, fill := range []byte{0x00, 0xff, 0x5a} {
				if pad <= 1 && fill != 0 {
					continue
				}
				data := make([]byte, dl)
				for i := range data {
					data[i] = byte(0xc1 + i)
				}
				b := hdr(pad > 0, 9, 204, 0)
				b = binary.BigEndian.AppendUint32(b, 0x902f9e2e)
				b = append(b, "Appl"...)
				b = append(b, data...)
				for i := 0; i < pad; i++ {
					if i == pad-1 {
						b = append(b, byte(pad))
					} else {
						b = append(b, fill)
					}
				}
				want := &rtcp.ApplicationDefined{SubType: 9, SSRC: 0x902f9e2e, Name: "Appl", Data: data}
				if !yield(Variant{Name: fmt.Sprintf("APP data=%d pad=%d fill=%02x", dl, pad, fill), Type: "ApplicationDefined", B: fin(b), Want: want}) {
					return false
				}
			}
		}
	}
	// ---- 4. non-zero reserved bits
	for _, rsv := range []uint32{0xffffff, 0x000001, 0x800000, 0xa5a5a5} {
		for n := 1; n <= 2; n++ {
			b := hdr(false, 4, 206, 0)
			b = binary.BigEndian.AppendUint32(b, 0x902f9e2e)
			b = binary.BigEndian.AppendUint32(b, 0x11223344)
			want := &rtcp.FullIntraRequest{SenderSSRC: 0x902f9e2e, MediaSSRC: 0x11223344}
			for i := 0; i < n; i++ {
				b = binary.BigEndian.AppendUint32(b, 0xa0b0c0d0+uint32(i))
				b = append(b, byte(0x81+i), byte(rsv>>16), byte(rsv>>8), byte(rsv))
				want.FIR = append(want.FIR, rtcp.FIREntry{SSRC: 0xa0b0c0d0 + uint32(i), SequenceNumber: uint8(0x81 + i)})
			}
			if !yield(Variant{Name: fmt.Sprintf("FIR reserved=%06x entries=%d", rsv, n), Type: "FullIntraRequest", B: fin(b), Want: want}) {
				return false
			}
		}
	}
	if !xrVariants(level, yield) {
		return false
	}
	// ---- 6. CCFB not-received metric blocks with stray bits
	for _, stray := range []uint16{0x0001, 0x1fff, 0x2000, 0x4000, 0x6000, 0x7fff, 0x2aaa} {
		for _, pos := range []int{0, 1, 2} {
			words := []uint16{0x8123, 0xc456, 0xe789, 0xa001}
			want := &rtcp.CCFeedbackReport{SenderSSRC: 0x902f9e2e, ReportTimestamp: 0x31323334, ReportBlocks: []rtcp.CCFeedbackReportBlock{{MediaSSRC: 0x11223344, BeginSequence: 0x0102}}}
			words[pos] = stray
			for _, w := range words {
				mb := rtcp.CCFeedbackMetricBlock{}
				if w&0x8000 != 0 {
					mb = rtcp.CCFeedbackMetricBlock{Received: true, ECN: rtcp.ECN(w >> 13 & 3), ArrivalTimeOffset: w & 0x1fff}
				}
				want.ReportBlocks[0].MetricBlocks = append(want.ReportBlocks[0].MetricBlocks, mb)
			}
			for _, isCount := range []bool{false, true} {
				b := hdr(false, 11, 205, 0)
				b = binary.BigEndian.AppendUint32(b, 0x902f9e2e)
				b = binary.BigEndian.AppendUint32(b, 0x11223344)
				b = binary.BigEndian.AppendUint16(b, 0x0102)
				if isCount {
					b = binary.BigEndian.AppendUint16(b, 4)
				} else {
					b = binary.BigEndian.AppendUint16(b, 3)
				}
				for _, w := range words {
					b = binary.BigEndian.AppendUint16(b, w)
				}
				b = binary.BigEndian.AppendUint32(b, 0x31323334)
				nm := "CCFB-minus1"
				if isCount {
					nm = "CCFB-count"
				}
				if !yield(Variant{Name: fmt.Sprintf("%s stray=%04x pos=%d", nm, stray, pos), Type: "CCFeedbackReport", B: fin(b), Want: want}) {
					return false
				}
			}
		}
	}
	// ---- 7. BYE without reason, with reason, with zero-length reason
	for ns := 0; ns <= 2; ns++ {
		for _, reason := range []string{"", "x", "abc", "abcd", "abcdefg", "\x00"} {
			for _, zero := range []bool{false, true} {
				if zero && reason != "" {
					continue
				}
				b := hdr(false, ns, 203, 0)
				want := &rtcp.Goodbye{Reason: reason}
				for i := 0; i < ns; i++ {
					b = binary.BigEndian.AppendUint32(b, 0xa0b0c0d0+uint32(i))
					want.Sources = append(want.Sources, 0xa0b0c0d0+uint32(i))
				}
				if reason != "" || zero {
					b = append(b, byte(len(reason)))
					b = append(b, reason...)
					for len(b)%4 != 0 {
						b = append(b, 0)
					}
				}
				if !yield(Variant{Name: fmt.Sprintf("BYE sources=%d reason=%q zero-length=%v", ns, reason, zero), Type: "Goodbye", B: fin(b), Want: want}) {
					return false
				}
			}
		}
	}
	// ---- 8. count-inflated SR / RR / SDES / BYE: must be rejected
	inflate := func(typ string, p rtcp.Packet, n int) bool {
		w, err := Encode(p, Opt{})
		if err != nil {
			return true
		}
		for cnt := n + 1; cnt <= 31; cnt++ {
			if level < 2 && cnt > n+3 && cnt < 30 {
				continue
			}
			b := append([]byte{}, w.B...)
			b[0] = b[0]&0xe0 | byte(cnt)
			if !yield(Variant{Name: fmt.Sprintf("%s count=%d over %d elements", typ, cnt, n), Type: typ, B: b, Reject: true}) {
				return false
			}
		}
		return true
	}
	for n := 0; n <= 2; n++ {
		t := &tagger{}
		sr := &rtcp.SenderReport{SSRC: t.u32(), NTPTime: t.u64(), RTPTime: t.u32(), PacketCount: t.u32(), OctetCount: t.u32()}
		rr := &rtcp.ReceiverReport{SSRC: t.u32()}
		sd := &rtcp.SourceDescription{}
		by := &rtcp.Goodbye{}
		for i := 0; i < n; i++ {
			sr.Reports = append(sr.Reports, t.report())
			rr.Reports = append(rr.Reports, t.report())
			sd.Chunks = append(sd.Chunks, rtcp.SourceDescriptionChunk{Source: t.u32(), Items: []rtcp.SourceDescriptionItem{{Type: 1, Text: t.text(3 + i)}}})
			by.Sources = append(by.Sources, t.u32())
		}
		if !inflate("SenderReport", sr, n) || !inflate("ReceiverReport", rr, n) || !inflate("SourceDescription", sd, n) || !inflate("Goodbye", by, n) {
			return false
		}
	}
	return true
}

func twccVariants(st []uint8, maxZero int, yield func(Variant) bool) bool {
	ticks := DefaultTicks(st)
	return Chunkings(st, maxZero, func(cs []ChunkSpec) bool {
		for _, pbit := range []bool{false, true} {
			spec := TWCCSpec{Sender: 0x902f9e2e, Media: 0xa1b2c3d4, BaseSeq: 0xfffe, RefTime: 0x8a9bac, FbCount: 0xc7, Statuses: st, Ticks: ticks, Chunks: cs, PBit: pbit}
			b := spec.Bytes()
			if pbit && b[0]&0x20 == 0 {
				continue
			}
			if !yield(Variant{Name: fmt.Sprintf("TWCC statuses=%v chunks=%v pbit=%v", st, cs, pbit), Type: "TransportLayerCC", B: b, Want: spec.Packet()}) {
				return false
			}
		}
		return true
	})
}

// xrVariants: reserved bits set in the XR header, in block type-specific
// octets and in the VoIP reserved octet.
func xrVariants(level int, yield func(Variant) bool) bool {
	for _, blk := range XRBlockAlphabet() {
		if !blk.Core && level < 1 {
			continue
		}
		for _, hdrRsv := range []uint8{0, 0x1f, 0x01, 0x10} {
			for _, tsRsv := range []uint8{0x00, 0xff, 0xf0, 0x07, 0xa5} {
				if hdrRsv == 0 && tsRsv == 0 {
					continue
				}
				if level < 2 && hdrRsv != 0 && hdrRsv != 0x1f && tsRsv != 0 {
					continue
				}
				t := &tagger{}
				p := &rtcp.ExtendedReport{SenderSSRC: t.u32(), Reports: []rtcp.ReportBlock{blk.Make(t)}}
				if _, unk := p.Reports[0].(*rtcp.UnknownReportBlock); unk {
					continue // the type-specific octet of unknown blocks is content, not reserved
				}
				w, err := Encode(p, Opt{})
				if err != nil {
					continue
				}
				b := append([]byte{}, w.B...)
				b[0] |= hdrRsv
				// reserved bits of the type-specific octet at offset 9
				var mask uint8
				switch b[8] {
				case 1, 2, 3:
					mask = 0xf0
				case 4, 5, 7:
					mask = 0xff
				case 6:
					mask = 0x07
				}
				b[9] |= tsRsv & mask
				name := fmt.Sprintf("XR %s header-reserved=%02x type-specific-reserved=%02x", blk.Name, hdrRsv, tsRsv&mask)
				if b[8] == 7 && tsRsv == 0xff {
					b[8+4+4+4+4+4+4+4+1] = 0xee // VoIP reserved octet (after RX config)
					name += " voip-reserved=ee"
				}
				if !yield(Variant{Name: name, Type: "ExtendedReport", B: b, Want: p}) {
					return false
				}
			}
		}
	}
	return true
}
