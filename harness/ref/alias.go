package ref

import (
	"fmt"
	"reflect"
	"unsafe"
)

// memRange is one block of memory reachable from a value.
type memRange struct {
	lo, hi uintptr
	path   string
}

// Reachable lists the memory blocks (pointer targets, slice backing arrays up to their capacity)
// reachable from v. Strings are left out: their data is immutable and may legitimately be shared.
func reachable(v reflect.Value, path string, out *[]memRange, depth int) {
	if depth > 12 {
		return
	}
	switch v.Kind() {
	case reflect.Ptr:
		if v.IsNil() {
			return
		}
		sz := v.Type().Elem().Size()
		if sz > 0 {
			*out = append(*out, memRange{v.Pointer(), v.Pointer() + sz, path})
		}
		reachable(v.Elem(), path, out, depth+1)
	case reflect.Interface:
		if v.IsNil() {
			return
		}
		reachable(v.Elem(), path, out, depth+1)
	case reflect.Struct:
		for i := 0; i < v.NumField(); i++ {
			reachable(v.Field(i), path+"."+v.Type().Field(i).Name, out, depth+1)
		}
	case reflect.Slice:
		if v.IsNil() || v.Cap() == 0 {
			return
		}
		es := v.Type().Elem().Size()
		if es > 0 {
			p := v.Pointer()
			*out = append(*out, memRange{p, p + uintptr(v.Cap())*es, path})
		}
		switch v.Type().Elem().Kind() {
		case reflect.Ptr, reflect.Interface, reflect.Struct, reflect.Slice:
			for i := 0; i < v.Len() && i < 64; i++ {
				reachable(v.Index(i), fmt.Sprintf("%s[%d]", path, i), out, depth+1)
			}
		}
	}
}

// SharedMemory reports a block of memory reachable from both values, ignoring blocks inside any of the
// given buffers (documented aliasing of an input). "" when the two values are disjoint.
func SharedMemory(a, b interface{}, except ...[]byte) string {
	var ra, rb []memRange
	reachable(reflect.ValueOf(a), "", &ra, 0)
	reachable(reflect.ValueOf(b), "", &rb, 0)
	inExcept := func(r memRange) bool {
		for _, e := range except {
			if cap(e) == 0 {
				continue
			}
			lo := uintptr(unsafe.Pointer(unsafe.SliceData(e[:cap(e)])))
			if r.lo >= lo && r.hi <= lo+uintptr(cap(e)) {
				return true
			}
		}
		return false
	}
	for _, x := range ra {
		if inExcept(x) {
			continue
		}
		for _, y := range rb {
			if x.lo < y.hi && y.lo < x.hi && !inExcept(y) {
				return fmt.Sprintf("%s and %s share memory", orRoot(x.path), orRoot(y.path))
			}
		}
	}
	return ""
}

func orRoot(p string) string {
	if p == "" {
		return "(the value itself)"
	}
	return p
}
