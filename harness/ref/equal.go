package ref

import (
	"fmt"
	"math"
	"reflect"
	"strings"
	"unsafe"

	"github.com/pion/rtcp"
)

// knownXR lists the block types whose XRHeader is a derived wire artefact
// (filled by Marshal and by Unmarshal) and therefore not semantic content.
var knownXR = map[reflect.Type]bool{
	reflect.TypeOf(rtcp.LossRLEReportBlock{}):               true,
	reflect.TypeOf(rtcp.DuplicateRLEReportBlock{}):          true,
	reflect.TypeOf(rtcp.PacketReceiptTimesReportBlock{}):    true,
	reflect.TypeOf(rtcp.ReceiverReferenceTimeReportBlock{}): true,
	reflect.TypeOf(rtcp.DLRRReportBlock{}):                  true,
	reflect.TypeOf(rtcp.StatisticsSummaryReportBlock{}):     true,
	reflect.TypeOf(rtcp.VoIPMetricsReportBlock{}):           true,
}

var unknownXR = reflect.TypeOf(rtcp.UnknownReportBlock{})
var xrHeaderT = reflect.TypeOf(rtcp.XRHeader{})

func access(v reflect.Value) reflect.Value {
	if v.CanInterface() || !v.CanAddr() {
		return v
	}
	return reflect.NewAt(v.Type(), unsafe.Pointer(v.UnsafeAddr())).Elem()
}

// Equal compares two packets (or any two values) semantically: nil and empty
// slices are the same, pointers are followed, the XRHeader of the seven
// defined XR block kinds and the BlockLength of unknown blocks are ignored.
// It returns the path of the first difference.
func Equal(a, b interface{}) (string, bool) {
	return eq(reflect.ValueOf(a), reflect.ValueOf(b), "")
}

func eq(a, b reflect.Value, path string) (string, bool) {
	if !a.IsValid() || !b.IsValid() {
		if a.IsValid() == b.IsValid() {
			return "", true
		}
		return path + "(nil-vs-value)", false
	}
	if a.Type() != b.Type() {
		return path + fmt.Sprintf("(type %s vs %s)", a.Type(), b.Type()), false
	}
	switch a.Kind() {
	case reflect.Ptr, reflect.Interface:
		if a.IsNil() || b.IsNil() {
			if a.IsNil() == b.IsNil() {
				return "", true
			}
			return path + "(nil-vs-value)", false
		}
		return eq(a.Elem(), b.Elem(), path)
	case reflect.Slice:
		if a.Len() != b.Len() {
			return path + fmt.Sprintf("(len %d vs %d)", a.Len(), b.Len()), false
		}
		for i := 0; i < a.Len(); i++ {
			if p, ok := eq(a.Index(i), b.Index(i), fmt.Sprintf("%s[%d]", path, i)); !ok {
				return p, false
			}
		}
		return "", true
	case reflect.Array:
		for i := 0; i < a.Len(); i++ {
			if p, ok := eq(a.Index(i), b.Index(i), fmt.Sprintf("%s[%d]", path, i)); !ok {
				return p, false
			}
		}
		return "", true
	case reflect.Struct:
		t := a.Type()
		if !a.CanAddr() {
			na := reflect.New(t).Elem()
			na.Set(a)
			a = na
		}
		if !b.CanAddr() {
			nb := reflect.New(t).Elem()
			nb.Set(b)
			b = nb
		}
		for i := 0; i < t.NumField(); i++ {
			f := t.Field(i)
			if f.Name == "_" {
				continue
			}
			if f.Type == xrHeaderT && knownXR[t] {
				continue
			}
			if t == xrHeaderT && f.Name == "BlockLength" {
				continue
			}
			if p, ok := eq(access(a.Field(i)), access(b.Field(i)), path+"."+f.Name); !ok {
				return p, false
			}
		}
		return "", true
	case reflect.Float32, reflect.Float64:
		if math.Float64bits(a.Float()) != math.Float64bits(b.Float()) {
			return path, false
		}
		return "", true
	case reflect.String:
		if a.String() != b.String() {
			return path, false
		}
		return "", true
	case reflect.Bool:
		if a.Bool() != b.Bool() {
			return path, false
		}
		return "", true
	case reflect.Int, reflect.Int8, reflect.Int16, reflect.Int32, reflect.Int64:
		if a.Int() != b.Int() {
			return path, false
		}
		return "", true
	case reflect.Uint, reflect.Uint8, reflect.Uint16, reflect.Uint32, reflect.Uint64, reflect.Uintptr:
		if a.Uint() != b.Uint() {
			return path, false
		}
		return "", true
	case reflect.Map:
		if a.Len() != b.Len() {
			return path + "(map len)", false
		}
		for _, k := range a.MapKeys() {
			bv := b.MapIndex(k)
			if !bv.IsValid() {
				return path + "(map key)", false
			}
			if p, ok := eq(a.MapIndex(k), bv, path+"{}"); !ok {
				return p, false
			}
		}
		return "", true
	case reflect.Func, reflect.Chan, reflect.UnsafePointer:
		if a.Pointer() != b.Pointer() {
			return path, false
		}
		return "", true
	}
	return "", true
}

// Clone makes a deep copy (pointers, slices, interfaces, unexported fields).
func Clone(v interface{}) interface{} {
	if v == nil {
		return nil
	}
	return clone(reflect.ValueOf(v)).Interface()
}

func clone(v reflect.Value) reflect.Value {
	switch v.Kind() {
	case reflect.Ptr:
		if v.IsNil() {
			return reflect.Zero(v.Type())
		}
		n := reflect.New(v.Type().Elem())
		n.Elem().Set(clone(v.Elem()))
		return n
	case reflect.Interface:
		if v.IsNil() {
			return reflect.Zero(v.Type())
		}
		n := reflect.New(v.Type()).Elem()
		n.Set(clone(v.Elem()))
		return n
	case reflect.Slice:
		if v.IsNil() {
			return reflect.Zero(v.Type())
		}
		n := reflect.MakeSlice(v.Type(), v.Len(), v.Len())
		for i := 0; i < v.Len(); i++ {
			n.Index(i).Set(clone(v.Index(i)))
		}
		return n
	case reflect.Struct:
		n := reflect.New(v.Type()).Elem()
		if !v.CanAddr() {
			tmp := reflect.New(v.Type()).Elem()
			tmp.Set(v)
			v = tmp
		}
		for i := 0; i < v.NumField(); i++ {
			access(n.Field(i)).Set(clone(access(v.Field(i))))
		}
		return n
	case reflect.Array:
		n := reflect.New(v.Type()).Elem()
		for i := 0; i < v.Len(); i++ {
			n.Index(i).Set(clone(v.Index(i)))
		}
		return n
	}
	n := reflect.New(v.Type()).Elem()
	n.Set(v)
	return n
}

// Dump renders a value canonically and strictly (nil vs empty slices are
// distinguished, unexported fields included, pointer identities not): two
// values with the same Dump are indistinguishable through their fields.
func Dump(v interface{}) string {
	var sb strings.Builder
	dump(&sb, reflect.ValueOf(v), 0)
	return sb.String()
}

// DumpSkipSync makes Dump render values of types from package sync / sync/atomic as opaque:
// synchronisation state (a Pool's internals, a Once's done flag) is not shared *data*.
var DumpSkipSync bool

func dump(sb *strings.Builder, v reflect.Value, depth int) {
	if !v.IsValid() {
		sb.WriteString("<invalid>")
		return
	}
	if DumpSkipSync {
		if pp := v.Type().PkgPath(); pp == "sync" || pp == "sync/atomic" || strings.HasSuffix(pp, "/verifrt/vsync") {
			sb.WriteString("<" + v.Type().String() + ">")
			return
		}
	}
	if depth > 40 {
		sb.WriteString("<deep>")
		return
	}
	switch v.Kind() {
	case reflect.Ptr:
		if v.IsNil() {
			sb.WriteString("nilptr")
			return
		}
		sb.WriteString("&")
		dump(sb, v.Elem(), depth+1)
	case reflect.Interface:
		if v.IsNil() {
			sb.WriteString("niliface")
			return
		}
		sb.WriteString("(" + v.Elem().Type().String() + ")")
		dump(sb, v.Elem(), depth+1)
	case reflect.Slice:
		if v.IsNil() {
			sb.WriteString("nilslice")
			return
		}
		if dumpCap && v.Cap() > v.Len() {
			full := v.Slice(0, v.Cap())
			fmt.Fprintf(sb, "cap%d/", v.Cap())
			n := v.Len()
			if full.Type().Elem().Kind() == reflect.Uint8 {
				for i := n; i < full.Len(); i++ {
					fmt.Fprintf(sb, "%02x", full.Index(i).Uint())
				}
			} else {
				for i := n; i < full.Len(); i++ {
					dump(sb, full.Index(i), depth+1)
				}
			}
			sb.WriteString("/")
		}
		if v.Type().Elem().Kind() == reflect.Uint8 {
			fmt.Fprintf(sb, "b%d:", v.Len())
			for i := 0; i < v.Len(); i++ {
				fmt.Fprintf(sb, "%02x", v.Index(i).Uint())
			}
			return
		}
		fmt.Fprintf(sb, "[%d:", v.Len())
		for i := 0; i < v.Len(); i++ {
			dump(sb, v.Index(i), depth+1)
			sb.WriteString(",")
		}
		sb.WriteString("]")
	case reflect.Array:
		sb.WriteString("[")
		for i := 0; i < v.Len(); i++ {
			dump(sb, v.Index(i), depth+1)
			sb.WriteString(",")
		}
		sb.WriteString("]")
	case reflect.Struct:
		if !v.CanAddr() {
			tmp := reflect.New(v.Type()).Elem()
			tmp.Set(v)
			v = tmp
		}
		sb.WriteString(v.Type().Name() + "{")
		for i := 0; i < v.NumField(); i++ {
			sb.WriteString(v.Type().Field(i).Name + ":")
			dump(sb, access(v.Field(i)), depth+1)
			sb.WriteString(";")
		}
		sb.WriteString("}")
	case reflect.Map:
		fmt.Fprintf(sb, "map%d", v.Len())
	case reflect.String:
		fmt.Fprintf(sb, "%q", v.String())
	case reflect.Float32, reflect.Float64:
		fmt.Fprintf(sb, "f%x", math.Float64bits(v.Float()))
	case reflect.Bool:
		fmt.Fprintf(sb, "%v", v.Bool())
	case reflect.Int, reflect.Int8, reflect.Int16, reflect.Int32, reflect.Int64:
		fmt.Fprintf(sb, "%d", v.Int())
	case reflect.Uint, reflect.Uint8, reflect.Uint16, reflect.Uint32, reflect.Uint64, reflect.Uintptr:
		fmt.Fprintf(sb, "%d", v.Uint())
	case reflect.Func, reflect.Chan, reflect.UnsafePointer:
		fmt.Fprintf(sb, "p%x", v.Pointer())
	default:
		sb.WriteString("?")
	}
}

// DestSSRC is the reference for Packet.DestinationSSRC, written from the
// property statement.
func DestSSRC(p rtcp.Packet) []uint32 {
	out := []uint32{}
	switch v := p.(type) {
	case *rtcp.SenderReport:
		for _, r := range v.Reports {
			out = append(out, r.SSRC)
		}
		out = append(out, v.SSRC)
	case *rtcp.ReceiverReport:
		for _, r := range v.Reports {
			out = append(out, r.SSRC)
		}
	case *rtcp.SourceDescription:
		for _, c := range v.Chunks {
			out = append(out, c.Source)
		}
	case *rtcp.Goodbye:
		out = append(out, v.Sources...)
	case *rtcp.ApplicationDefined:
		out = append(out, v.SSRC)
	case *rtcp.TransportLayerNack:
		out = append(out, v.MediaSSRC)
	case *rtcp.PictureLossIndication:
		out = append(out, v.MediaSSRC)
	case *rtcp.RapidResynchronizationRequest:
		out = append(out, v.MediaSSRC)
	case *rtcp.SliceLossIndication:
		out = append(out, v.MediaSSRC)
	case *rtcp.TransportLayerCC:
		out = append(out, v.MediaSSRC)
	case *rtcp.FullIntraRequest:
		for _, e := range v.FIR {
			out = append(out, e.SSRC)
		}
	case *rtcp.ReceiverEstimatedMaximumBitrate:
		out = append(out, v.SSRCs...)
	case *rtcp.CCFeedbackReport:
		for _, b := range v.ReportBlocks {
			out = append(out, b.MediaSSRC)
		}
	case *rtcp.ExtendedReport:
		out = append(out, v.SenderSSRC)
		for _, b := range v.Reports {
			switch x := b.(type) {
			case *rtcp.LossRLEReportBlock:
				out = append(out, x.SSRC)
			case *rtcp.DuplicateRLEReportBlock:
				out = append(out, x.SSRC)
			case *rtcp.PacketReceiptTimesReportBlock:
				out = append(out, x.SSRC)
			case *rtcp.DLRRReportBlock:
				for _, r := range x.Reports {
					out = append(out, r.SSRC)
				}
			case *rtcp.StatisticsSummaryReportBlock:
				out = append(out, x.SSRC)
			case *rtcp.VoIPMetricsReportBlock:
				out = append(out, x.SSRC)
			}
		}
	case *rtcp.RawPacket:
	case *rtcp.CompoundPacket:
		if len(*v) > 0 {
			return DestSSRC((*v)[0])
		}
	}
	return out
}

// PadCapacity gives every slice reachable from v spare capacity filled with a
// sentinel pattern (elements beyond len), so that a write past the length of a
// caller-owned slice becomes observable through DumpCap.
func PadCapacity(v interface{}, extra int) {
	padCap(reflect.ValueOf(v), extra)
}

func padCap(v reflect.Value, extra int) {
	switch v.Kind() {
	case reflect.Ptr, reflect.Interface:
		if !v.IsNil() {
			padCap(v.Elem(), extra)
		}
	case reflect.Struct:
		for i := 0; i < v.NumField(); i++ {
			f := v.Field(i)
			if f.CanSet() {
				padCap(f, extra)
			}
		}
	case reflect.Slice:
		if v.IsNil() || !v.CanSet() {
			return
		}
		n := v.Len()
		ns := reflect.MakeSlice(v.Type(), n+extra, n+extra)
		reflect.Copy(ns, v)
		for i := n; i < n+extra; i++ {
			fillSentinel(ns.Index(i))
		}
		v.Set(ns.Slice(0, n))
		for i := 0; i < n; i++ {
			padCap(v.Index(i), extra)
		}
	}
}

func fillSentinel(v reflect.Value) {
	switch v.Kind() {
	case reflect.Uint8, reflect.Uint16, reflect.Uint32, reflect.Uint64, reflect.Uint:
		v.SetUint(0xEEEEEEEEEEEEEEEE & (1<<uint(v.Type().Bits()) - 1))
	case reflect.Int8, reflect.Int16, reflect.Int32, reflect.Int64, reflect.Int:
		v.SetInt(0x6E)
	case reflect.String:
		v.SetString("\xee")
	case reflect.Struct:
		for i := 0; i < v.NumField(); i++ {
			if v.Field(i).CanSet() {
				fillSentinel(v.Field(i))
			}
		}
	}
}

// DumpCap is Dump that also renders the spare capacity of every slice.
func DumpCap(v interface{}) string {
	var sb strings.Builder
	dumpCap = true
	dump(&sb, reflect.ValueOf(v), 0)
	dumpCap = false
	return sb.String()
}

var dumpCap bool
