// Package ref is the reference side of the oracles: encoders, decoders,
// grammar and arithmetic written from the RFCs / drafts (see DESIGN.md
// Appendix A), not from pion/rtcp's source. It uses pion's exported struct
// types only as carriers of the semantic content.
package ref

import (
	"encoding/binary"
	"errors"
	"fmt"

	"github.com/pion/rtcp"
)

// W is a byte writer that also records which octets the specifications leave
// open (Free) and where control fields (lengths, counts) live (Ctl).
type W struct {
	B    []byte
	Free map[int]bool // offsets whose value is unspecified
	Ctl  []int        // offsets of count/length control octets
}

func (w *W) u8(v uint8)   { w.B = append(w.B, v) }
func (w *W) u16(v uint16) { w.B = append(w.B, byte(v>>8), byte(v)) }
func (w *W) u24(v uint32) { w.B = append(w.B, byte(v>>16), byte(v>>8), byte(v)) }
func (w *W) u32(v uint32) { w.B = append(w.B, byte(v>>24), byte(v>>16), byte(v>>8), byte(v)) }
func (w *W) u64(v uint64) { w.u32(uint32(v >> 32)); w.u32(uint32(v)) }
func (w *W) bytes(b []byte) { w.B = append(w.B, b...) }
func (w *W) ctl(n int) {
	for i := 0; i < n; i++ {
		w.Ctl = append(w.Ctl, len(w.B)+i)
	}
}
func (w *W) padTo4() int {
	n := 0
	for len(w.B)%4 != 0 {
		w.B = append(w.B, 0)
		n++
	}
	return n
}

// header writes the common header with a zero length; fixLen patches it.
func (w *W) header(padding bool, count uint8, pt uint8) {
	b0 := uint8(0x80) | count&0x1f
	if padding {
		b0 |= 0x20
	}
	w.ctl(1)
	w.u8(b0)
	w.u8(pt)
	w.ctl(2)
	w.u16(0)
}

func (w *W) fixLen(start int) {
	binary.BigEndian.PutUint16(w.B[start+2:], uint16((len(w.B)-start)/4-1))
}

// ErrNotInDomain is returned for values outside the well-formed domain.
var ErrNotInDomain = errors.New("ref: value outside the well-formed domain")

// Opt selects among specification readings.
type Opt struct {
	// CCFBNumReportsIsCount: num_reports holds the number of metric blocks
	// (RFC 8888 3.1 first sentence). Otherwise it holds that number minus one
	// ("begin_seq to begin_seq+num_reports inclusive"), 0 also for an empty block.
	CCFBNumReportsIsCount bool
}

// Encode returns the canonical RFC encoding of a well-formed packet value.
func Encode(p rtcp.Packet, o Opt) (*W, error) {
	w := &W{Free: map[int]bool{}}
	if err := encodeInto(w, p, o); err != nil {
		return nil, err
	}
	return w, nil
}

func report(w *W, r rtcp.ReceptionReport) error {
	if r.TotalLost >= 1<<24 {
		return ErrNotInDomain
	}
	w.u32(r.SSRC)
	w.u8(r.FractionLost)
	w.u24(r.TotalLost)
	w.u32(r.LastSequenceNumber)
	w.u32(r.Jitter)
	w.u32(r.LastSenderReport)
	w.u32(r.Delay)
	return nil
}

func encodeInto(w *W, p rtcp.Packet, o Opt) error {
	start := len(w.B)
	switch v := p.(type) {
	case *rtcp.SenderReport:
		if len(v.Reports) > 31 || len(v.ProfileExtensions)%4 != 0 {
			return ErrNotInDomain
		}
		w.header(false, uint8(len(v.Reports)), 200)
		w.u32(v.SSRC)
		w.u64(v.NTPTime)
		w.u32(v.RTPTime)
		w.u32(v.PacketCount)
		w.u32(v.OctetCount)
		for _, r := range v.Reports {
			if err := report(w, r); err != nil {
				return err
			}
		}
		w.bytes(v.ProfileExtensions)
	case *rtcp.ReceiverReport:
		if len(v.Reports) > 31 {
			return ErrNotInDomain
		}
		w.header(false, uint8(len(v.Reports)), 201)
		w.u32(v.SSRC)
		for _, r := range v.Reports {
			if err := report(w, r); err != nil {
				return err
			}
		}
		w.bytes(v.ProfileExtensions)
		w.padTo4() // documented: extensions are zero-padded to 32 bits
	case *rtcp.SourceDescription:
		if len(v.Chunks) > 31 {
			return ErrNotInDomain
		}
		w.header(false, uint8(len(v.Chunks)), 202)
		for _, ch := range v.Chunks {
			w.u32(ch.Source)
			for _, it := range ch.Items {
				if it.Type == 0 || len(it.Text) > 255 {
					return ErrNotInDomain
				}
				w.u8(uint8(it.Type))
				w.ctl(1)
				w.u8(uint8(len(it.Text)))
				w.bytes([]byte(it.Text))
			}
			w.u8(0) // at least one null octet ends the item list
			w.padTo4()
		}
	case *rtcp.Goodbye:
		if len(v.Sources) > 31 || len(v.Reason) > 255 {
			return ErrNotInDomain
		}
		w.header(false, uint8(len(v.Sources)), 203)
		for _, s := range v.Sources {
			w.u32(s)
		}
		if v.Reason != "" {
			w.ctl(1)
			w.u8(uint8(len(v.Reason)))
			w.bytes([]byte(v.Reason))
			w.padTo4()
		}
	case *rtcp.ApplicationDefined:
		if v.SubType > 31 || len(v.Name) != 4 || len(v.Data) > 262144-12 { // the length field counts words in 16 bits
			return ErrNotInDomain
		}
		pad := (4 - len(v.Data)%4) % 4
		w.header(pad != 0, v.SubType, 204)
		w.u32(v.SSRC)
		w.bytes([]byte(v.Name))
		w.bytes(v.Data)
		for i := 0; i < pad; i++ {
			if i < pad-1 {
				w.Free[len(w.B)] = true
			} else {
				w.ctl(1)
			}
			w.u8(uint8(pad))
		}
	case *rtcp.TransportLayerNack:
		if len(v.Nacks) == 0 {
			return ErrNotInDomain
		}
		w.header(false, 1, 205)
		w.u32(v.SenderSSRC)
		w.u32(v.MediaSSRC)
		for _, n := range v.Nacks {
			w.u16(n.PacketID)
			w.u16(uint16(n.LostPackets))
		}
	case *rtcp.RapidResynchronizationRequest:
		w.header(false, 5, 205)
		w.u32(v.SenderSSRC)
		w.u32(v.MediaSSRC)
	case *rtcp.PictureLossIndication:
		w.header(false, 1, 206)
		w.u32(v.SenderSSRC)
		w.u32(v.MediaSSRC)
	case *rtcp.SliceLossIndication:
		if len(v.SLI) == 0 {
			return ErrNotInDomain
		}
		w.header(false, 2, 206) // RFC 4585 6.3.2: payload-specific feedback
		w.u32(v.SenderSSRC)
		w.u32(v.MediaSSRC)
		for _, e := range v.SLI {
			if e.First >= 1<<13 || e.Number >= 1<<13 || e.Picture >= 1<<6 {
				return ErrNotInDomain
			}
			w.u32(uint32(e.First)<<19 | uint32(e.Number)<<6 | uint32(e.Picture))
		}
	case *rtcp.FullIntraRequest:
		if len(v.FIR) == 0 {
			return ErrNotInDomain
		}
		w.header(false, 4, 206)
		w.u32(v.SenderSSRC)
		w.u32(v.MediaSSRC)
		for _, e := range v.FIR {
			w.u32(e.SSRC)
			w.u8(e.SequenceNumber)
			w.u24(0)
		}
	case *rtcp.ReceiverEstimatedMaximumBitrate:
		if len(v.SSRCs) > 255 || !(v.Bitrate >= 0) {
			return ErrNotInDomain
		}
		e, m := RembEncode(v.Bitrate)
		w.header(false, 15, 206)
		w.u32(v.SenderSSRC)
		w.u32(0)
		w.bytes([]byte("REMB"))
		w.ctl(1)
		w.u8(uint8(len(v.SSRCs)))
		w.u8(e<<2 | uint8(m>>16))
		w.u16(uint16(m))
		for _, s := range v.SSRCs {
			w.u32(s)
		}
	case *rtcp.TransportLayerCC:
		return encodeTWCC(w, v)
	case *rtcp.CCFeedbackReport:
		w.header(false, 11, 205)
		w.u32(v.SenderSSRC)
		for _, b := range v.ReportBlocks {
			n := len(b.MetricBlocks)
			if n > 16384 {
				return ErrNotInDomain
			}
			w.u32(b.MediaSSRC)
			w.u16(b.BeginSequence)
			w.ctl(2)
			switch {
			case o.CCFBNumReportsIsCount:
				w.u16(uint16(n))
			case n == 0:
				w.u16(0)
			default:
				w.u16(uint16(n - 1))
			}
			for _, mb := range b.MetricBlocks {
				if mb.ECN > 3 || mb.ArrivalTimeOffset >= 1<<13 {
					return ErrNotInDomain
				}
				var x uint16
				if mb.Received {
					x = 0x8000 | uint16(mb.ECN)<<13 | mb.ArrivalTimeOffset
				} else if mb.ECN != 0 || mb.ArrivalTimeOffset != 0 {
					return ErrNotInDomain
				}
				w.u16(x)
			}
			if n%2 == 1 {
				w.u16(0)
			}
		}
		w.u32(v.ReportTimestamp)
	case *rtcp.ExtendedReport:
		w.header(false, 0, 207)
		w.u32(v.SenderSSRC)
		for _, b := range v.Reports {
			if err := xrBlock(w, b); err != nil {
				return err
			}
		}
	case *rtcp.RawPacket:
		if len(*v) < 4 || len(*v)%4 != 0 {
			return ErrNotInDomain
		}
		w.bytes([]byte(*v))
		return nil
	case *rtcp.CompoundPacket:
		for _, m := range *v {
			if err := encodeInto(w, m, o); err != nil {
				return err
			}
		}
		return nil
	default:
		return fmt.Errorf("ref: unsupported packet type %T", p)
	}
	if (len(w.B)-start)%4 != 0 {
		return ErrNotInDomain
	}
	if (len(w.B)-start)/4-1 > 0xffff {
		return ErrNotInDomain
	}
	w.fixLen(start)
	return nil
}

func xrBlockHeader(w *W, bt uint8, ts uint8) int {
	pos := len(w.B)
	w.ctl(1)
	w.u8(bt)
	w.u8(ts)
	w.ctl(2)
	w.u16(0)
	return pos
}

func xrFix(w *W, pos int) {
	binary.BigEndian.PutUint16(w.B[pos+2:], uint16((len(w.B)-pos)/4-1))
}

func xrRLE(w *W, bt uint8, t uint8, ssrc uint32, b, e uint16, chunks []rtcp.Chunk) error {
	if t > 15 || len(chunks)%2 != 0 {
		return ErrNotInDomain
	}
	pos := xrBlockHeader(w, bt, t&0x0f)
	w.u32(ssrc)
	w.u16(b)
	w.u16(e)
	for _, c := range chunks {
		w.u16(uint16(c))
	}
	xrFix(w, pos)
	return nil
}

func xrBlock(w *W, blk rtcp.ReportBlock) error {
	switch b := blk.(type) {
	case *rtcp.LossRLEReportBlock:
		return xrRLE(w, 1, b.T, b.SSRC, b.BeginSeq, b.EndSeq, b.Chunks)
	case *rtcp.DuplicateRLEReportBlock:
		return xrRLE(w, 2, b.T, b.SSRC, b.BeginSeq, b.EndSeq, b.Chunks)
	case *rtcp.PacketReceiptTimesReportBlock:
		if b.T > 15 {
			return ErrNotInDomain
		}
		pos := xrBlockHeader(w, 3, b.T&0x0f)
		w.u32(b.SSRC)
		w.u16(b.BeginSeq)
		w.u16(b.EndSeq)
		for _, t := range b.ReceiptTime {
			w.u32(t)
		}
		xrFix(w, pos)
	case *rtcp.ReceiverReferenceTimeReportBlock:
		pos := xrBlockHeader(w, 4, 0)
		w.u64(b.NTPTimestamp)
		xrFix(w, pos)
	case *rtcp.DLRRReportBlock:
		pos := xrBlockHeader(w, 5, 0)
		for _, r := range b.Reports {
			w.u32(r.SSRC)
			w.u32(r.LastRR)
			w.u32(r.DLRR)
		}
		xrFix(w, pos)
	case *rtcp.StatisticsSummaryReportBlock:
		if b.TTLorHopLimit > 3 {
			return ErrNotInDomain
		}
		var ts uint8
		if b.LossReports {
			ts |= 0x80
		}
		if b.DuplicateReports {
			ts |= 0x40
		}
		if b.JitterReports {
			ts |= 0x20
		}
		ts |= uint8(b.TTLorHopLimit) << 3
		pos := xrBlockHeader(w, 6, ts)
		w.u32(b.SSRC)
		w.u16(b.BeginSeq)
		w.u16(b.EndSeq)
		w.u32(b.LostPackets)
		w.u32(b.DupPackets)
		w.u32(b.MinJitter)
		w.u32(b.MaxJitter)
		w.u32(b.MeanJitter)
		w.u32(b.DevJitter)
		w.u8(b.MinTTLOrHL)
		w.u8(b.MaxTTLOrHL)
		w.u8(b.MeanTTLOrHL)
		w.u8(b.DevTTLOrHL)
		xrFix(w, pos)
	case *rtcp.VoIPMetricsReportBlock:
		pos := xrBlockHeader(w, 7, 0)
		w.u32(b.SSRC)
		w.u8(b.LossRate)
		w.u8(b.DiscardRate)
		w.u8(b.BurstDensity)
		w.u8(b.GapDensity)
		w.u16(b.BurstDuration)
		w.u16(b.GapDuration)
		w.u16(b.RoundTripDelay)
		w.u16(b.EndSystemDelay)
		w.u8(b.SignalLevel)
		w.u8(b.NoiseLevel)
		w.u8(b.RERL)
		w.u8(b.Gmin)
		w.u8(b.RFactor)
		w.u8(b.ExtRFactor)
		w.u8(b.MOSLQ)
		w.u8(b.MOSCQ)
		w.u8(b.RXConfig)
		w.u8(0)
		w.u16(b.JBNominal)
		w.u16(b.JBMaximum)
		w.u16(b.JBAbsMax)
		xrFix(w, pos)
	case *rtcp.UnknownReportBlock:
		bt := uint8(b.XRHeader.BlockType)
		if bt >= 1 && bt <= 7 || len(b.Bytes)%4 != 0 {
			return ErrNotInDomain
		}
		pos := xrBlockHeader(w, bt, uint8(b.XRHeader.TypeSpecific))
		w.bytes(b.Bytes)
		xrFix(w, pos)
	default:
		return fmt.Errorf("ref: unsupported XR block %T", blk)
	}
	return nil
}

// encodeTWCC writes a transport-wide-cc packet from the struct as given: the
// header is caller-supplied (C05/C09 judge it only when consistent).
func encodeTWCC(w *W, t *rtcp.TransportLayerCC) error {
	if t.ReferenceTime >= 1<<24 || t.Header.Count > 31 {
		return ErrNotInDomain
	}
	start := len(w.B)
	b0 := uint8(0x80) | t.Header.Count
	if t.Header.Padding {
		b0 |= 0x20
	}
	w.ctl(1)
	w.u8(b0)
	w.u8(uint8(t.Header.Type))
	w.ctl(2)
	w.u16(t.Header.Length)
	w.u32(t.SenderSSRC)
	w.u32(t.MediaSSRC)
	w.u16(t.BaseSequenceNumber)
	w.ctl(2)
	w.u16(t.PacketStatusCount)
	w.u24(t.ReferenceTime)
	w.u8(t.FbPktCount)
	for _, ch := range t.PacketChunks {
		w.ctl(2)
		switch c := ch.(type) {
		case *rtcp.RunLengthChunk:
			if c.PacketStatusSymbol > 3 || c.RunLength >= 1<<13 {
				return ErrNotInDomain
			}
			w.u16(c.PacketStatusSymbol<<13 | c.RunLength)
		case *rtcp.StatusVectorChunk:
			x := uint16(0x8000)
			switch c.SymbolSize {
			case 0:
				if len(c.SymbolList) > 14 {
					return ErrNotInDomain
				}
				for i, s := range c.SymbolList {
					if s > 1 {
						return ErrNotInDomain
					}
					x |= s << (13 - uint(i))
				}
			case 1:
				if len(c.SymbolList) > 7 {
					return ErrNotInDomain
				}
				x |= 0x4000
				for i, s := range c.SymbolList {
					if s > 3 {
						return ErrNotInDomain
					}
					x |= s << (12 - 2*uint(i))
				}
			default:
				return ErrNotInDomain
			}
			w.u16(x)
		default:
			return ErrNotInDomain
		}
	}
	for _, d := range t.RecvDeltas {
		if d == nil || d.Delta%250 != 0 {
			return ErrNotInDomain
		}
		v := d.Delta / 250
		switch d.Type {
		case rtcp.TypeTCCPacketReceivedSmallDelta:
			if v < 0 || v > 255 {
				return ErrNotInDomain
			}
			w.u8(uint8(v))
		case rtcp.TypeTCCPacketReceivedLargeDelta:
			if v < -32768 || v > 32767 {
				return ErrNotInDomain
			}
			w.u16(uint16(int16(v)))
		default:
			return ErrNotInDomain
		}
	}
	pad := 0
	for (len(w.B)-start)%4 != 0 {
		w.u8(0)
		pad++
	}
	if t.Header.Padding {
		if pad == 0 {
			return ErrNotInDomain
		}
		w.B[len(w.B)-1] = uint8(pad)
	}
	return nil
}

// RembEncode is the exact reference for the REMB (exponent, mantissa) of a
// non-negative finite bitrate: the largest 18-bit mantissa with minimal
// exponent not exceeding x, saturating at 0x3FFFF * 2^63.
func RembEncode(x float32) (uint8, uint32) {
	v := float64(x)
	const max = float64(0x3FFFF) * (1 << 63)
	if v >= max {
		return 63, 0x3FFFF
	}
	e := 0
	for v >= 1<<18 {
		v /= 2 // exact: division by two of a value with <= 24 significant bits
		e++
	}
	return uint8(e), uint32(v) // truncation == floor for v >= 0
}
