// instr generates, from the current working tree of pion/rtcp, the build
// overlays the checks use. Nothing is written into the repository.
//
//	instr <repo> <outdir>
//
// writes <outdir>/plain.json (adds verif_globals.go only) and
// <outdir>/instr.json (statement-instrumented copies of every non-test file,
// the virtual package github.com/pion/rtcp/verifrt, and verif_globals.go).
package main

import (
	"encoding/json"
	"fmt"
	"go/ast"
	"go/parser"
	"go/printer"
	"go/token"
	"os"
	"path/filepath"
	"sort"
	"strings"
)

const rtSrc = `// Package verifrt is injected by the verification harness (build overlay).
package verifrt

import "runtime"

// Hits records which instrumented statements were executed (statement coverage).
var Hits [NPOINTS]uint8

// Steps counts executed statements of package rtcp; exceeding Budget panics
// with BudgetExceeded so that unbounded loops are decided deterministically.
var (
	Steps  int64
	Budget int64 = 1 << 62
	Hook   func()
	// BlockHook is called by the sync shims when the calling thread cannot proceed (lock held,
	// Once running elsewhere, WaitGroup not at zero). The controlled scheduler switches to another
	// thread; without a scheduler the shim yields the processor.
	BlockHook func()
	// SyncDepth counts the sync protections the running code is inside (Once.Do bodies, held write
	// locks): a package variable written at depth 0 is unsynchronised shared state.
	SyncDepth int
)

// Block is called in wait loops of the sync shims.
func Block() {
	if BlockHook != nil {
		BlockHook()
		return
	}
	gosched()
}

// gosched is runtime.Gosched (kept behind a variable so that this file needs no import group edits).
var gosched = runtime.Gosched

// BudgetExceeded is the sentinel panic value.
type BudgetExceeded struct{}

func (BudgetExceeded) Error() string { return "verifrt: step budget exceeded" }

// P is called before every statement of package rtcp.
func P(id int) {
	Hits[id] = 1
	Steps++
	if Steps > Budget {
		Steps = 0
		panic(BudgetExceeded{})
	}
	if Hook != nil {
		Hook()
	}
}
`

const vsyncSrc = `// Package vsync replaces package sync inside the instrumented build: the same API for the
// primitives a codec library plausibly uses, with waiting made visible to the controlled scheduler.
package vsync

import (
	realsync "sync"

	"github.com/pion/rtcp/verifrt"
)

// Locker mirrors sync.Locker.
type Locker interface {
	Lock()
	Unlock()
}

// Map is not a blocking primitive; the real one is used.
type Map = realsync.Map

// Mutex is a cooperative mutual exclusion lock.
type Mutex struct{ locked bool }

func (m *Mutex) Lock() {
	verifrt.P(0)
	for m.locked {
		verifrt.Block()
	}
	m.locked = true
	verifrt.SyncDepth++
}

func (m *Mutex) TryLock() bool {
	verifrt.P(0)
	if m.locked {
		return false
	}
	m.locked = true
	verifrt.SyncDepth++
	return true
}

func (m *Mutex) Unlock() {
	if !m.locked {
		panic("sync: unlock of unlocked mutex")
	}
	verifrt.P(0)
	m.locked = false
	verifrt.SyncDepth--
	verifrt.P(0)
}

// RWMutex is a cooperative reader/writer lock.
type RWMutex struct {
	writer  bool
	readers int
}

func (m *RWMutex) Lock() {
	verifrt.P(0)
	for m.writer || m.readers > 0 {
		verifrt.Block()
	}
	m.writer = true
	verifrt.SyncDepth++
}

func (m *RWMutex) Unlock() {
	if !m.writer {
		panic("sync: Unlock of unlocked RWMutex")
	}
	verifrt.P(0)
	m.writer = false
	verifrt.SyncDepth--
	verifrt.P(0)
}

func (m *RWMutex) RLock() {
	verifrt.P(0)
	for m.writer {
		verifrt.Block()
	}
	m.readers++
}

func (m *RWMutex) RUnlock() {
	if m.readers <= 0 {
		panic("sync: RUnlock of unlocked RWMutex")
	}
	m.readers--
	verifrt.P(0)
}

func (m *RWMutex) RLocker() Locker { return rlocker{m} }

type rlocker struct{ m *RWMutex }

func (r rlocker) Lock()   { r.m.RLock() }
func (r rlocker) Unlock() { r.m.RUnlock() }

// Once runs its function once; concurrent callers wait until it has returned.
type Once struct {
	done    bool
	running bool
}

func (o *Once) Do(f func()) {
	verifrt.P(0)
	if o.done {
		return
	}
	for o.running {
		verifrt.Block()
	}
	if o.done {
		return
	}
	o.running = true
	verifrt.SyncDepth++
	defer func() {
		verifrt.P(0) // the last statement of f is attributed to the protected region
		verifrt.SyncDepth--
		o.done = true
		o.running = false
	}()
	f()
}

// Pool is a free list without per-P caches (deterministic): Get returns the most recently Put item.
type Pool struct {
	New   func() interface{}
	items []interface{}
}

func (p *Pool) Get() interface{} {
	verifrt.P(0)
	if n := len(p.items); n > 0 {
		x := p.items[n-1]
		p.items = p.items[:n-1]
		return x
	}
	if p.New != nil {
		return p.New()
	}
	return nil
}

func (p *Pool) Put(x interface{}) {
	verifrt.P(0)
	if x == nil {
		return
	}
	p.items = append(p.items, x)
}

// WaitGroup waits for a counter to reach zero.
type WaitGroup struct{ n int }

func (w *WaitGroup) Add(d int) {
	verifrt.P(0)
	w.n += d
	if w.n < 0 {
		panic("sync: negative WaitGroup counter")
	}
}

func (w *WaitGroup) Done() { w.Add(-1) }

func (w *WaitGroup) Wait() {
	verifrt.P(0)
	for w.n > 0 {
		verifrt.Block()
	}
}
` + ""

type pointInfo struct {
	ID   int    `json:"id"`
	File string `json:"file"`
	Line int    `json:"line"`
}

var syncShimmed bool

var (
	points  []pointInfo
	curFset *token.FileSet
	curFile string
)

func call(pos token.Pos) ast.Stmt {
	id := len(points)
	line := 0
	if pos.IsValid() {
		line = curFset.Position(pos).Line
	}
	points = append(points, pointInfo{ID: id, File: curFile, Line: line})
	return &ast.ExprStmt{X: &ast.CallExpr{Fun: &ast.SelectorExpr{X: ast.NewIdent("verifrt"), Sel: ast.NewIdent("P")},
		Args: []ast.Expr{&ast.BasicLit{Kind: token.INT, Value: fmt.Sprint(id)}}}}
}

func instrList(list []ast.Stmt) []ast.Stmt {
	out := make([]ast.Stmt, 0, 2*len(list)+1)
	for _, s := range list {
		if ls, ok := s.(*ast.LabeledStmt); ok {
			// keep the label attached to its statement (continue/break targets)
			_ = ls
			out = append(out, s)
			continue
		}
		out = append(out, call(s.Pos()))
		out = append(out, s)
	}
	return out
}

func main() {
	if len(os.Args) != 3 {
		fmt.Fprintln(os.Stderr, "usage: instr <repo> <outdir>")
		os.Exit(2)
	}
	src, dst := os.Args[1], os.Args[2]
	files, _ := filepath.Glob(filepath.Join(src, "*.go"))
	sort.Strings(files)
	ovI := map[string]string{}
	ovP := map[string]string{}
	npoints := 0
	var globals []string
	unsupported := map[string]bool{}
	pkgName := "rtcp"
	for _, f := range files {
		if strings.HasSuffix(f, "_test.go") {
			continue
		}
		fset := token.NewFileSet()
		curFset, curFile = fset, filepath.Base(f)
		af, err := parser.ParseFile(fset, f, nil, 0)
		if err != nil {
			fmt.Fprintln(os.Stderr, "instr: parse error (the plain build will report it):", err)
			os.Exit(3)
		}
		pkgName = af.Name.Name
		// package-level variables
		for _, d := range af.Decls {
			gd, ok := d.(*ast.GenDecl)
			if !ok || gd.Tok != token.VAR {
				continue
			}
			for _, sp := range gd.Specs {
				vs := sp.(*ast.ValueSpec)
				for _, n := range vs.Names {
					if n.Name != "_" {
						globals = append(globals, n.Name)
					}
				}
			}
		}
		rewrote := false
		for _, im := range af.Imports {
			p := strings.Trim(im.Path.Value, `"`)
			if p == "sync" {
				// routed through the cooperative shim in the instrumented build
				im.Path.Value = `"github.com/pion/rtcp/verifrt/vsync"`
				if im.Name == nil {
					im.Name = ast.NewIdent("sync")
				}
				syncShimmed = true
				rewrote = true
				continue
			}
			if p == "time" || p == "math/rand" {
				unsupported["import "+p] = true
			}
		}
		hasFunc := false
		skip := map[*ast.BlockStmt]bool{}
		ast.Inspect(af, func(n ast.Node) bool {
			switch x := n.(type) {
			case *ast.GoStmt:
				unsupported["go statement"] = true
			case *ast.SendStmt:
				unsupported["channel send"] = true
			case *ast.SwitchStmt:
				skip[x.Body] = true
			case *ast.TypeSwitchStmt:
				skip[x.Body] = true
			case *ast.SelectStmt:
				unsupported["select"] = true
				skip[x.Body] = true
			case *ast.BlockStmt:
				if x == nil || skip[x] {
					return true
				}
				npoints += len(x.List) + 1
				x.List = instrList(x.List)
				if len(x.List) == 0 {
					x.List = []ast.Stmt{call(x.Lbrace)}
				}
				hasFunc = true
			case *ast.CaseClause:
				npoints += len(x.Body)
				x.Body = instrList(x.Body)
			case *ast.CommClause:
				x.Body = instrList(x.Body)
			}
			return true
		})
		if !hasFunc && !rewrote {
			continue
		}
		if hasFunc {
			imp := &ast.GenDecl{Tok: token.IMPORT, Specs: []ast.Spec{&ast.ImportSpec{Path: &ast.BasicLit{Kind: token.STRING, Value: `"github.com/pion/rtcp/verifrt"`}}}}
			af.Decls = append([]ast.Decl{imp}, af.Decls...)
		}
		af.Comments = nil
		out := filepath.Join(dst, "i_"+filepath.Base(f))
		w, err := os.Create(out)
		if err != nil {
			panic(err)
		}
		if err := printer.Fprint(w, fset, af); err != nil {
			panic(err)
		}
		w.Close()
		ovI[f] = out
	}
	// runtime
	rt := filepath.Join(dst, "verifrt.go")
	must(os.WriteFile(rt, []byte(strings.Replace(rtSrc, "NPOINTS", fmt.Sprint(len(points)+1), 1)), 0o644))
	ovI[filepath.Join(src, "verifrt", "verifrt.go")] = rt
	vs := filepath.Join(dst, "vsync.go")
	must(os.WriteFile(vs, []byte(vsyncSrc), 0o644))
	ovI[filepath.Join(src, "verifrt", "vsync", "vsync.go")] = vs
	// globals accessor
	sort.Strings(globals)
	var sb strings.Builder
	fmt.Fprintf(&sb, "package %s\n\n// VerifGlobals returns the address of every package-level variable (generated).\nfunc VerifGlobals() map[string]interface{} {\n\treturn map[string]interface{}{\n", pkgName)
	for _, g := range globals {
		fmt.Fprintf(&sb, "\t\t%q: &%s,\n", g, g)
	}
	sb.WriteString("\t}\n}\n")
	gf := filepath.Join(dst, "verif_globals.go")
	must(os.WriteFile(gf, []byte(sb.String()), 0o644))
	ovI[filepath.Join(src, "verif_globals.go")] = gf
	ovP[filepath.Join(src, "verif_globals.go")] = gf

	write := func(name string, m map[string]string) {
		b, _ := json.MarshalIndent(map[string]interface{}{"Replace": m}, "", " ")
		must(os.WriteFile(filepath.Join(dst, name), b, 0o644))
	}
	write("plain.json", ovP)
	write("instr.json", ovI)
	var un []string
	for k := range unsupported {
		un = append(un, k)
	}
	sort.Strings(un)
	info := map[string]interface{}{"static_points": len(points), "files": len(ovI) - 2, "globals": globals, "unsupported": un, "points": points, "sync_shimmed": syncShimmed}
	b, _ := json.MarshalIndent(info, "", " ")
	must(os.WriteFile(filepath.Join(dst, "info.json"), b, 0o644))
}

func must(err error) {
	if err != nil {
		fmt.Fprintln(os.Stderr, "instr:", err)
		os.Exit(3)
	}
}
