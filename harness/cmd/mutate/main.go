// mutate enumerates small syntactic changes of pion/rtcp (one token or one statement each) and
// writes a changed copy of one file. It is a tool for measuring the checks (which of the changes
// that the repository's tests do not notice do the checks notice?), not part of any check.
//
//	mutate list  <repo>                 one JSON object per line: id, file, line, kind, from, to
//	mutate apply <repo> <id> <outfile>  the file named by the mutant, with the change applied
package main

import (
	"encoding/json"
	"fmt"
	"go/ast"
	"go/parser"
	"go/token"
	"os"
	"path/filepath"
	"sort"
	"strconv"
	"strings"
)

type mutant struct {
	ID    int    `json:"id"`
	File  string `json:"file"`
	Line  int    `json:"line"`
	Func  string `json:"func"`
	Kind  string `json:"kind"`
	From  string `json:"from"`
	To    string `json:"to"`
	start int
	end   int
}

var binSwap = map[token.Token][]token.Token{
	token.LSS:  {token.LEQ},
	token.LEQ:  {token.LSS},
	token.GTR:  {token.GEQ},
	token.GEQ:  {token.GTR},
	token.EQL:  {token.NEQ},
	token.NEQ:  {token.EQL},
	token.LAND: {token.LOR},
	token.LOR:  {token.LAND},
	token.ADD:  {token.SUB},
	token.SUB:  {token.ADD},
	token.MUL:  {token.QUO},
	token.AND:  {token.OR},
	token.OR:   {token.AND},
	token.SHL:  {token.SHR},
	token.SHR:  {token.SHL},
}

func collect(repo string) []mutant {
	files, _ := filepath.Glob(filepath.Join(repo, "*.go"))
	sort.Strings(files)
	var out []mutant
	for _, f := range files {
		if strings.HasSuffix(f, "_test.go") {
			continue
		}
		src, err := os.ReadFile(f)
		if err != nil {
			panic(err)
		}
		fset := token.NewFileSet()
		af, err := parser.ParseFile(fset, f, src, 0)
		if err != nil {
			panic(err)
		}
		base := filepath.Base(f)
		off := func(p token.Pos) int { return fset.Position(p).Offset }
		curFunc := ""
		add := func(pos token.Pos, kind, from, to string, s, e int) {
			out = append(out, mutant{File: base, Line: fset.Position(pos).Line, Func: curFunc, Kind: kind, From: from, To: to, start: s, end: e})
		}
		for _, d := range af.Decls {
			curFunc = ""
			if fd, ok := d.(*ast.FuncDecl); ok {
				curFunc = fd.Name.Name
				if fd.Recv != nil && len(fd.Recv.List) == 1 {
					t := fd.Recv.List[0].Type
					if st, ok := t.(*ast.StarExpr); ok {
						t = st.X
					}
					if id, ok := t.(*ast.Ident); ok {
						curFunc = id.Name + "." + curFunc
					}
				}
			}
			ast.Inspect(d, func(n ast.Node) bool {
				switch x := n.(type) {
				case *ast.BinaryExpr:
					for _, to := range binSwap[x.Op] {
						s := off(x.OpPos)
						add(x.OpPos, "operator", x.Op.String(), to.String(), s, s+len(x.Op.String()))
					}
				case *ast.UnaryExpr:
					if x.Op == token.NOT {
						s := off(x.OpPos)
						add(x.OpPos, "negation-removed", "!", "", s, s+1)
					}
				case *ast.BasicLit:
					if x.Kind == token.INT {
						v, err := strconv.ParseInt(x.Value, 0, 64)
						if err != nil {
							return true
						}
						s, e := off(x.Pos()), off(x.End())
						add(x.Pos(), "constant", x.Value, fmt.Sprint(v+1), s, e)
						if v > 0 {
							add(x.Pos(), "constant", x.Value, fmt.Sprint(v-1), s, e)
						}
					}
				case *ast.IfStmt:
					// a guard: if cond { return ... } without else
					if x.Else == nil && x.Init == nil && len(x.Body.List) == 1 {
						if _, ok := x.Body.List[0].(*ast.ReturnStmt); ok {
							s, e := off(x.Pos()), off(x.End())
							add(x.Pos(), "guard-removed", firstLine(string(src[s:e])), "", s, e)
						}
					}
					// condition forced
				case *ast.AssignStmt:
					if x.Tok != token.DEFINE && curFunc != "" {
						s, e := off(x.Pos()), off(x.End())
						add(x.Pos(), "assignment-removed", firstLine(string(src[s:e])), "", s, e)
					}
				case *ast.ExprStmt:
					if curFunc != "" {
						s, e := off(x.Pos()), off(x.End())
						add(x.Pos(), "call-removed", firstLine(string(src[s:e])), "", s, e)
					}
				case *ast.IncDecStmt:
					s, e := off(x.Pos()), off(x.End())
					add(x.Pos(), "assignment-removed", firstLine(string(src[s:e])), "", s, e)
				}
				return true
			})
		}
	}
	// second pass: kinds added later are numbered after the first-pass changes so that earlier ids stay valid
	for _, f := range files {
		if strings.HasSuffix(f, "_test.go") {
			continue
		}
		src, _ := os.ReadFile(f)
		fset := token.NewFileSet()
		af, err := parser.ParseFile(fset, f, src, 0)
		if err != nil {
			panic(err)
		}
		base := filepath.Base(f)
		off := func(p token.Pos) int { return fset.Position(p).Offset }
		for _, d := range af.Decls {
			fd, ok := d.(*ast.FuncDecl)
			if !ok || fd.Body == nil {
				continue
			}
			curFunc := fd.Name.Name
			if fd.Recv != nil && len(fd.Recv.List) == 1 {
				t := fd.Recv.List[0].Type
				if st, ok := t.(*ast.StarExpr); ok {
					t = st.X
				}
				if id, ok := t.(*ast.Ident); ok {
					curFunc = id.Name + "." + curFunc
				}
			}
			onlyErr := fd.Type.Results != nil && len(fd.Type.Results.List) == 1 && len(fd.Type.Results.List[0].Names) <= 1
			if onlyErr {
				if id, ok := fd.Type.Results.List[0].Type.(*ast.Ident); !ok || id.Name != "error" {
					onlyErr = false
				}
			}
			add := func(pos token.Pos, kind, from, to string, s, e int) {
				out = append(out, mutant{File: base, Line: fset.Position(pos).Line, Func: curFunc, Kind: kind, From: from, To: to, start: s, end: e})
			}
			narrow := map[string][]string{"uint16": {"uint8"}, "uint32": {"uint16"}, "uint64": {"uint32"}, "int": {"uint16", "uint8"}, "uint8": {"int8"}, "int64": {"int32"}, "int16": {"int8"}}
			ast.Inspect(fd.Body, func(n ast.Node) bool {
				switch x := n.(type) {
				case *ast.CallExpr:
					// conversion T(x) with a narrower T, written as T'(T(x)) so that the expression keeps its type
					if id, ok := x.Fun.(*ast.Ident); ok && len(x.Args) == 1 {
						for _, to := range narrow[id.Name] {
							s, e := off(x.Pos()), off(x.End())
							add(x.Pos(), "conversion-narrowed", firstLine(string(src[s:e])), id.Name+"("+to+"("+string(src[off(x.Args[0].Pos()):off(x.Args[0].End())])+"))", s, e)
						}
					}
				case *ast.SelectorExpr:
					if id, ok := x.X.(*ast.Ident); ok && id.Name == "binary" && x.Sel.Name == "BigEndian" {
						s, e := off(x.Sel.Pos()), off(x.Sel.End())
						add(x.Pos(), "byte-order", "BigEndian", "LittleEndian", s, e)
					}
				case *ast.ReturnStmt:
					if onlyErr && len(x.Results) == 1 {
						if id, ok := x.Results[0].(*ast.Ident); ok && id.Name != "nil" {
							s, e := off(id.Pos()), off(id.End())
							add(x.Pos(), "error-dropped", "return "+id.Name, "nil", s, e)
						}
					}
				}
				return true
			})
		}
	}
	// third pass (numbered after the earlier ones): cursor / offset slips — slice bounds and indices off by one
	for _, f := range files {
		if strings.HasSuffix(f, "_test.go") {
			continue
		}
		src, _ := os.ReadFile(f)
		fset := token.NewFileSet()
		af, err := parser.ParseFile(fset, f, src, 0)
		if err != nil {
			panic(err)
		}
		base := filepath.Base(f)
		off := func(p token.Pos) int { return fset.Position(p).Offset }
		text := func(e ast.Expr) string { return string(src[off(e.Pos()):off(e.End())]) }
		isLit := func(e ast.Expr) bool { _, ok := e.(*ast.BasicLit); return ok } // literals were covered by the first pass
		for _, d := range af.Decls {
			fd, ok := d.(*ast.FuncDecl)
			if !ok || fd.Body == nil {
				continue
			}
			curFunc := fd.Name.Name
			if fd.Recv != nil && len(fd.Recv.List) == 1 {
				t := fd.Recv.List[0].Type
				if st, ok := t.(*ast.StarExpr); ok {
					t = st.X
				}
				if id, ok := t.(*ast.Ident); ok {
					curFunc = id.Name + "." + curFunc
				}
			}
			add := func(pos token.Pos, kind, from, to string, s, e int) {
				out = append(out, mutant{File: base, Line: fset.Position(pos).Line, Func: curFunc, Kind: kind, From: from, To: to, start: s, end: e})
			}
			ast.Inspect(fd.Body, func(n ast.Node) bool {
				switch x := n.(type) {
				case *ast.SliceExpr:
					if x.High != nil && !isLit(x.High) {
						s, e := off(x.High.Pos()), off(x.High.End())
						add(x.Pos(), "slice-bound", firstLine(text(x)), "("+text(x.High)+")-1", s, e)
						add(x.Pos(), "slice-bound", firstLine(text(x)), "("+text(x.High)+")+1", s, e)
					}
					if x.Low != nil && !isLit(x.Low) {
						s, e := off(x.Low.Pos()), off(x.Low.End())
						add(x.Pos(), "slice-bound", firstLine(text(x)), "("+text(x.Low)+")+1", s, e)
					}
				case *ast.IndexExpr:
					if !isLit(x.Index) {
						if _, isIdent := x.X.(*ast.Ident); isIdent || true {
							s, e := off(x.Index.Pos()), off(x.Index.End())
							add(x.Pos(), "index-shifted", firstLine(text(x)), "("+text(x.Index)+")+1", s, e)
						}
					}
				}
				return true
			})
		}
	}
	for i := range out {
		out[i].ID = i
	}
	return out
}

func firstLine(s string) string {
	if i := strings.IndexByte(s, '\n'); i >= 0 {
		s = s[:i] + " ..."
	}
	if len(s) > 100 {
		s = s[:100] + "..."
	}
	return s
}

func main() {
	if len(os.Args) < 3 {
		fmt.Fprintln(os.Stderr, "usage: mutate list <repo> | mutate apply <repo> <id> <outfile>")
		os.Exit(2)
	}
	ms := collect(os.Args[2])
	switch os.Args[1] {
	case "list":
		enc := json.NewEncoder(os.Stdout)
		for _, m := range ms {
			_ = enc.Encode(m)
		}
	case "apply":
		id, err := strconv.Atoi(os.Args[3])
		if err != nil || id < 0 || id >= len(ms) {
			fmt.Fprintln(os.Stderr, "bad id")
			os.Exit(2)
		}
		m := ms[id]
		src, err := os.ReadFile(filepath.Join(os.Args[2], m.File))
		if err != nil {
			panic(err)
		}
		var repl string
		switch m.Kind {
		case "guard-removed", "assignment-removed", "call-removed":
			// keep the line structure (positions in messages stay comparable)
			repl = strings.Repeat("\n", strings.Count(string(src[m.start:m.end]), "\n"))
		default:
			repl = m.To
		}
		out := append([]byte{}, src[:m.start]...)
		out = append(out, repl...)
		out = append(out, src[m.end:]...)
		if err := os.WriteFile(os.Args[4], out, 0o644); err != nil {
			panic(err)
		}
	}
}
