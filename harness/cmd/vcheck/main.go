// vcheck is both the driver and the worker of every property check.
//
//	vcheck -drive -prop C16 -tier quick     driver: shards over worker processes, merges, evidence, verdict
//	vcheck -worker -prop C16 -shard 3 -n 16  one worker
//	vcheck -replay file.json                 re-execute one replay file
package main

import (
	"encoding/hex"
	"encoding/json"
	"flag"
	"fmt"
	"os"
	"os/exec"
	"path/filepath"
	"runtime"
	"sort"
	"strconv"
	"strings"
	"sync"
	"time"

	"verif/bx"
	"verif/props"
)

var (
	fDrive   = flag.Bool("drive", false, "run as driver")
	fWorker  = flag.Bool("worker", false, "run as worker")
	fReplay  = flag.String("replay", "", "replay file")
	fProp    = flag.String("prop", "", "property id")
	fTier    = flag.String("tier", "quick", "quick|thorough")
	fShard   = flag.Int("shard", 0, "shard index")
	fN       = flag.Int("n", 1, "number of shards")
	fOut     = flag.String("out", "", "result file (worker)")
	fSeed    = flag.Int64("seed", 0, "seed (rotates shard assignment only)")
	fDead    = flag.Int64("deadline", 0, "unix seconds at which exploration stops")
	fRoot    = flag.String("root", "/verif", "verif root")
	fOutDir  = flag.String("outdir", "", "directory for evidence/ and replays/ (default: the verif root)")
	fInstrOK = flag.Bool("instr-ok", true, "instrumented build available")
	fRace    = flag.Bool("racepass", false, "run the free-running race-detector pass of C18 (race-enabled build)")
)

func main() {
	flag.Parse()
	switch {
	case *fRace:
		props.RunRacePass()
	case *fWorker:
		worker()
	case *fReplay != "":
		os.Exit(props.RunReplay(*fReplay))
	case *fDrive:
		os.Exit(drive())
	default:
		fmt.Fprintln(os.Stderr, "usage: vcheck -drive|-worker|-replay ...")
		os.Exit(2)
	}
}

func worker() {
	p := props.Lookup(*fProp)
	if p == nil {
		fmt.Fprintln(os.Stderr, "unknown property", *fProp)
		os.Exit(2)
	}
	var dl time.Time
	if *fDead > 0 {
		dl = time.Unix(*fDead, 0)
	}
	c := bx.New(*fProp, *fTier, *fShard, *fN, *fSeed, dl)
	c.Instr = props.InstrBuild
	props.SetCtx(c)
	p.Run(c)
	bx.Cover = props.CoverageGet()
	if err := c.WriteResult(*fOut); err != nil {
		fmt.Fprintln(os.Stderr, "write result:", err)
		os.Exit(2)
	}
}

type known struct {
	prop, key, text string
	seen            bool
}

// procCPU returns the CPU time (user+system, seconds) consumed so far by a process, from /proc.
func procCPU(pid int) float64 {
	b, err := os.ReadFile(fmt.Sprintf("/proc/%d/stat", pid))
	if err != nil {
		return 0
	}
	// fields after the parenthesised command name; utime and stime are fields 14 and 15
	s := string(b)
	if k := strings.LastIndexByte(s, ')'); k >= 0 {
		f := strings.Fields(s[k+1:])
		if len(f) > 13 {
			u, _ := strconv.ParseFloat(f[11], 64)
			st, _ := strconv.ParseFloat(f[12], 64)
			return (u + st) / 100 // USER_HZ is 100 on Linux
		}
	}
	return 0
}

func outRoot() string {
	if *fOutDir != "" {
		return *fOutDir
	}
	return *fRoot
}

func loadKnown(root string) []*known {
	b, err := os.ReadFile(filepath.Join(root, "KNOWN_FINDINGS.txt"))
	if err != nil {
		return nil
	}
	var out []*known
	for _, ln := range strings.Split(string(b), "\n") {
		ln = strings.TrimSpace(ln)
		if !strings.HasPrefix(ln, "known:") {
			continue
		}
		f := strings.Fields(strings.TrimPrefix(ln, "known:"))
		k := &known{}
		rest := []string{}
		for _, w := range f {
			switch {
			case strings.HasPrefix(w, "property=") && k.prop == "":
				k.prop = strings.TrimPrefix(w, "property=")
			case strings.HasPrefix(w, "key=") && k.key == "":
				k.key = strings.TrimPrefix(w, "key=")
			default:
				rest = append(rest, w)
			}
		}
		k.text = strings.Join(rest, " ")
		if k.prop != "" && k.key != "" {
			out = append(out, k)
		}
	}
	return out
}

func drive() int {
	t0 := time.Now()
	p := props.Lookup(*fProp)
	if p == nil {
		fmt.Fprintln(os.Stderr, "unknown property", *fProp)
		return 2
	}
	tier := *fTier
	if tier != "quick" && tier != "thorough" {
		fmt.Fprintln(os.Stderr, "bad tier", tier)
		return 2
	}
	seed := *fSeed
	if s := os.Getenv("VERIF_SEED"); s != "" {
		if v, err := strconv.ParseInt(s, 10, 64); err == nil {
			seed = v
		}
	}
	if seed < 0 {
		seed = -seed
	}
	budget := int64(240)
	if tier == "thorough" {
		budget = 1500
	}
	if s := os.Getenv("VERIF_DEADLINE_S"); s != "" {
		if v, err := strconv.ParseInt(s, 10, 64); err == nil && v > 0 {
			budget = v
		}
	}
	deadline := time.Now().Add(time.Duration(budget) * time.Second)

	n := runtime.NumCPU()
	if n > 16 {
		n = 16
	}
	if p.Workers > 0 && p.Workers < n {
		n = p.Workers
	}
	self, _ := os.Executable()
	bin := self
	if p.Instr || os.Getenv("VERIF_FORCE_INSTR") != "" {
		alt := filepath.Join(filepath.Dir(self), "vcheck-i")
		if _, err := os.Stat(alt); err == nil {
			bin = alt
		}
	}
	tmp, err := os.MkdirTemp("", "vcheck-"+*fProp+"-")
	if err != nil {
		fmt.Fprintln(os.Stderr, "HARNESS-ERROR", err)
		return 2
	}
	defer os.RemoveAll(tmp)

	type wres struct {
		res  *bx.Result
		err  error
		mark string
		log  string
		slow bool // stopped long after the deadline without being hung: no verdict
	}
	out := make([]wres, n)
	var wg sync.WaitGroup
	for i := 0; i < n; i++ {
		wg.Add(1)
		go func(i int) {
			defer wg.Done()
			resf := filepath.Join(tmp, fmt.Sprintf("res.%d.json", i))
			markf := filepath.Join(tmp, fmt.Sprintf("mark.%d", i))
			args := []string{"-c", `ulimit -v 3145728 2>/dev/null; exec "$0" "$@"`, bin, "-worker", "-prop", *fProp, "-tier", tier,
				"-shard", strconv.Itoa(i), "-n", strconv.Itoa(n), "-out", resf, "-seed", strconv.FormatInt(seed, 10),
				"-deadline", strconv.FormatInt(deadline.Unix(), 10)}
			cmd := exec.Command("sh", args...)
			// GOMEMLIMIT below the address-space limit: the collector works harder instead of the worker dying on garbage
			cmd.Env = append(os.Environ(), "GOMAXPROCS="+strconv.Itoa(p.MaxProcs()), "VERIF_MARK="+markf, "GOTRACEBACK=single", "GOMEMLIMIT=1800MiB")
			lg, _ := os.Create(filepath.Join(tmp, fmt.Sprintf("log.%d", i)))
			cmd.Stdout, cmd.Stderr = lg, lg
			done := make(chan error, 1)
			if err := cmd.Start(); err != nil {
				out[i].err = err
				return
			}
			go func() { done <- cmd.Wait() }()
			// Workers stop by themselves at the deadline, between two cases. No verdict depends on
			// wall-clock time: a worker is declared hung only if its progress counter stands still
			// while it consumes hangCPU seconds of CPU time (one case that does not end). A worker that
			// is merely slow (loaded machine) is stopped hardStop after the deadline without a verdict:
			// its remaining cases count as not explored.
			hangCPU := 300.0
			if v, err := strconv.ParseFloat(os.Getenv("VERIF_HANG_CPU_S"), 64); err == nil && v > 0 {
				hangCPU = v // testing aid
			}
			hardStop := deadline.Add(900 * time.Second)
			var werr error
			lastBeat, _ := bx.ReadBeat(markf)
			cpuAtBeat := procCPU(cmd.Process.Pid)
			tick := time.NewTicker(2 * time.Second)
		wait:
			for {
				select {
				case werr = <-done:
					break wait
				case <-tick.C:
					b, _ := bx.ReadBeat(markf)
					cpu := procCPU(cmd.Process.Pid)
					if b != lastBeat {
						lastBeat, cpuAtBeat = b, cpu
					} else if cpu-cpuAtBeat >= hangCPU {
						_ = cmd.Process.Kill()
						<-done
						werr = fmt.Errorf("one case consumed more than %.0f s of CPU time without ending; worker stopped", hangCPU)
						break wait
					}
					if time.Now().After(hardStop) {
						_ = cmd.Process.Kill()
						<-done
						out[i].slow = true
						break wait
					}
				}
			}
			tick.Stop()
			lg.Close()
			lb, _ := os.ReadFile(lg.Name())
			if len(lb) > 3000 {
				lb = append(append(append([]byte{}, lb[:1500]...), []byte("\n...\n")...), lb[len(lb)-1500:]...)
			}
			out[i].log = string(lb)
			out[i].mark = markf
			if werr != nil {
				out[i].err = werr
				return
			}
			b, err := os.ReadFile(resf)
			if err != nil {
				out[i].err = err
				return
			}
			r := &bx.Result{}
			if err := json.Unmarshal(b, r); err != nil {
				out[i].err = err
				return
			}
			out[i].res = r
		}(i)
	}
	wg.Wait()

	// merge
	tot := &bx.Result{Prop: *fProp, Tier: tier, N: n, Counters: map[string]int64{}, Exhaustive: true}
	fm := map[string]*bx.Finding{}
	var cover []byte
	harnessErr := ""
	for i := range out {
		if out[i].slow {
			tot.Exhaustive = false
			tot.Notes = append(tot.Notes, fmt.Sprintf("shard %d was still making progress 900 s after the deadline and was stopped; its remaining cases were not explored (no verdict)", i))
			continue
		}
		if out[i].err != nil && *fProp != "C01" && (strings.Contains(out[i].log, "out of memory") || strings.Contains(out[i].log, "cannot allocate")) {
			// Memory is C01's subject (allocation per decode call, measured, and worker deaths there are
			// judged). Elsewhere a worker that exhausts its 3 GiB address space — the harness keeps formatted
			// strings, dumps and large base values alive next to the code under test — gives no verdict.
			tot.Exhaustive = false
			tot.Notes = append(tot.Notes, fmt.Sprintf("shard %d ran out of memory under its address-space limit and stopped; its remaining cases were not explored (no verdict)", i))
			continue
		}
		if out[i].err != nil {
			entry, input, ok := bx.ReadMark(out[i].mark)
			tot.Exhaustive = false
			if !ok {
				entry, input = "unknown-call", nil
			}
			{
				key := *fProp + "/worker-death/" + entry
				fm[key] = &bx.Finding{Key: key, Count: 1,
					What: fmt.Sprintf("worker process stopped (%v) while executing %s on %d input octets (a call that does not end, or a fatal runtime error: out of memory, stack overflow, throw)", out[i].err, entry, len(input)),
					Replay: bx.Replay{Property: *fProp, Key: key, Entry: entry, InputHex: bx.Hex(input),
						Expected: "call returns a value or an error", Observed: "process died: " + out[i].err.Error() + "\n" + out[i].log}}
				tot.Notes = append(tot.Notes, fmt.Sprintf("shard %d died; the rest of its cases were not explored", i))
				continue
			}
		}
		r := out[i].res
		tot.States += r.States
		tot.Transitions += r.Transitions
		tot.Nontrivial += r.Nontrivial
		for k, v := range r.Counters {
			tot.Counters[k] += v
		}
		if !r.Exhaustive {
			tot.Exhaustive = false
		}
		for _, s := range r.Samples {
			if len(tot.Samples) < 8 {
				tot.Samples = append(tot.Samples, s)
			}
		}
		for _, nt := range r.Notes {
			dup := false
			for _, x := range tot.Notes {
				if x == nt {
					dup = true
				}
			}
			if !dup {
				tot.Notes = append(tot.Notes, nt)
			}
		}
		if r.Cover != "" {
			if hb, err := hex.DecodeString(r.Cover); err == nil {
				if cover == nil {
					cover = make([]byte, len(hb))
				}
				for k := 0; k < len(hb) && k < len(cover); k++ {
					cover[k] |= hb[k]
				}
			}
		}
		for _, f := range r.Findings {
			if g := fm[f.Key]; g != nil {
				g.Count += f.Count
			} else {
				fm[f.Key] = f
			}
		}
	}
	if harnessErr != "" {
		fmt.Println("HARNESS-ERROR property=" + *fProp + " " + harnessErr)
		return 3
	}

	kn := loadKnown(*fRoot)
	keys := make([]string, 0, len(fm))
	for k := range fm {
		keys = append(keys, k)
	}
	sort.Strings(keys)
	var knownSeen []string
	var viol []*bx.Finding
	for _, k := range keys {
		f := fm[k]
		matched := false
		for _, kf := range kn {
			if kf.prop == *fProp && kf.key == k {
				matched = true
				if !kf.seen {
					kf.seen = true
					fmt.Printf("KNOWN-FINDING: property=%s key=%s %s (seen %d times this run)\n", *fProp, k, kf.text, f.Count)
					knownSeen = append(knownSeen, k)
				}
			}
		}
		if !matched {
			viol = append(viol, f)
		}
	}
	rdir := filepath.Join(outRoot(), "replays", *fProp)
	_ = os.RemoveAll(rdir) // replay files describe the latest run only
	for _, f := range viol {
		_ = os.MkdirAll(rdir, 0o755)
		name := sanitize(f.Key) + ".json"
		path := filepath.Join(rdir, name)
		b, _ := json.MarshalIndent(f.Replay, "", " ")
		_ = os.WriteFile(path, b, 0o644)
		fmt.Printf("VIOLATION property=%s replay=%s\n", *fProp, path)
		fmt.Printf("  key=%s count=%d\n  %s\n", f.Key, f.Count, f.What)
	}

	// evidence
	if len(tot.Samples) == 0 {
		tot.Samples = append(tot.Samples, "no sample recorded")
	}
	cov := map[string]interface{}{
		"states":                        tot.States,
		"transitions":                   tot.Transitions,
		"traces_validated_against_impl": tot.States,
		"samples":                       tot.Samples,
		"evaluations":                   tot.States,
		"distinct_nontrivial":           tot.Nontrivial,
		"rule":                          p.Rule,
		"exhaustive":                    tot.Exhaustive,
		"spaces":                        tot.Counters,
		"workers":                       n,
		"notes":                         tot.Notes,
		"known_findings_seen":           knownSeen,
		"bounds":                        p.Bounds(tier),
		"instrumented_build":            p.Instr && bin != self,
	}
	if cover != nil {
		total, hit, unc := coverageSummary(cover)
		cov["statement_points_total"] = total
		cov["statement_points_hit"] = hit
		if len(unc) > 80 {
			cov["statements_not_reached"] = append(unc[:80:80], fmt.Sprintf("... and %d more", len(unc)-80))
		} else {
			cov["statements_not_reached"] = unc
		}
		cov["statement_hit_vector_hex"] = hex.EncodeToString(cover)
	}
	ev := map[string]interface{}{
		"property_id": *fProp,
		"tier":        tier,
		"seed":        seed,
		"level":       "model_checking",
		"coverage":    cov,
		"assumptions": p.Assumptions,
		"wall_s":      time.Since(t0).Seconds(),
		"violations":  len(viol),
	}
	eb, _ := json.MarshalIndent(ev, "", " ")
	_ = os.MkdirAll(filepath.Join(outRoot(), "evidence"), 0o755)
	if err := os.WriteFile(filepath.Join(outRoot(), "evidence", *fProp+".json"), eb, 0o644); err != nil {
		fmt.Println("HARNESS-ERROR cannot write evidence:", err)
		return 3
	}
	fmt.Printf("%s %s: states=%d transitions=%d nontrivial=%d exhaustive=%v known=%d violations=%d wall=%.1fs\n",
		*fProp, tier, tot.States, tot.Transitions, tot.Nontrivial, tot.Exhaustive, len(knownSeen), len(viol), time.Since(t0).Seconds())
	if len(viol) > 0 {
		return 1
	}
	return 0
}

// coverageSummary maps the merged hit vector onto file:line using the instrumenter's table.
func coverageSummary(cover []byte) (total, hit int, uncovered []string) {
	var info struct {
		Points []struct {
			ID   int    `json:"id"`
			File string `json:"file"`
			Line int    `json:"line"`
		} `json:"points"`
	}
	if b, err := os.ReadFile(os.Getenv("VERIF_INFO")); err == nil {
		_ = json.Unmarshal(b, &info)
	}
	total = len(info.Points)
	for _, p := range info.Points {
		if p.ID < len(cover) && cover[p.ID] != 0 {
			hit++
		} else {
			uncovered = append(uncovered, fmt.Sprintf("%s:%d", p.File, p.Line))
		}
	}
	return
}

func sanitize(s string) string {
	var sb strings.Builder
	for _, r := range s {
		if (r >= 'a' && r <= 'z') || (r >= 'A' && r <= 'Z') || (r >= '0' && r <= '9') || r == '-' || r == '.' {
			sb.WriteRune(r)
		} else {
			sb.WriteRune('_')
		}
	}
	out := sb.String()
	if len(out) > 150 {
		out = out[:150]
	}
	return out
}
