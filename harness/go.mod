module verif

go 1.20

require github.com/pion/rtcp v0.0.0

replace github.com/pion/rtcp => /repo
