// Package bx is the exploration core shared by every property check: a
// per-worker context that shards a deterministic enumeration, counts states
// and transitions, collects findings keyed by a stable class identifier and a
// few written-out samples, and honours the tier deadline.
package bx

import (
	"encoding/hex"
	"encoding/json"
	"fmt"
	"os"
	"sort"
	"strings"
	"syscall"
	"time"
)

// Replay is everything needed to re-execute one failing case without the
// explorer.
type Replay struct {
	Property string `json:"property"`
	Key      string `json:"key"`
	Entry    string `json:"entry"`              // entry point / operation description
	InputHex string `json:"input_hex,omitempty"` // raw bytes, when the case is a byte string
	Value    string `json:"value,omitempty"`    // dump of the model value, when the case is a value
	ValueGob string `json:"value_gob,omitempty"` // the value itself (base64 gob), so that the case can be re-executed
	Ops      string `json:"ops,omitempty"`      // operation / schedule list
	Expected string `json:"expected"`
	Observed string `json:"observed"`
}

// Finding is one class of oracle failure.
type Finding struct {
	Key    string `json:"key"`
	What   string `json:"what"`
	Count  int64  `json:"count"`
	Replay Replay `json:"replay"`
}

// Result is what one worker hands back to the driver.
type Result struct {
	Prop        string           `json:"prop"`
	Tier        string           `json:"tier"`
	Shard       int              `json:"shard"`
	N           int              `json:"n"`
	States      int64            `json:"states"`
	Transitions int64            `json:"transitions"`
	Nontrivial  int64            `json:"nontrivial"`
	Counters    map[string]int64 `json:"counters"`
	Samples     []interface{}    `json:"samples"`
	Findings    []*Finding       `json:"findings"`
	Exhaustive  bool             `json:"exhaustive"`
	Notes       []string         `json:"notes"`
	WallS       float64          `json:"wall_s"`
	Cover       string           `json:"cover,omitempty"` // hex of the statement-hit vector (instrumented build)
}

// Ctx is the per-worker exploration context.
type Ctx struct {
	Prop     string
	Tier     string // quick | thorough
	Shard, N int
	Seed     int64
	Deadline time.Time
	Instr    bool // running on the statement-instrumented build

	States      int64 // distinct cases enumerated by this worker
	Transitions int64 // calls into pion/rtcp
	Nontrivial  int64
	counters    map[string]int64
	samples     []interface{}
	findings    map[string]*Finding
	notes       []string
	expired     bool
	idx         int64
	tick        int
	start       time.Time
	mark        []byte
	beats       uint64
	sampleEvery int64
	spaceCtr    *int64
	spaces      map[string]*int64
}

// Space names the sub-space the following cases belong to; cases owned by
// this worker are counted per space in the evidence.
func (c *Ctx) Space(name string) {
	if c.spaces == nil {
		c.spaces = map[string]*int64{}
	}
	p := c.spaces[name]
	if p == nil {
		p = new(int64)
		c.spaces[name] = p
	}
	c.spaceCtr = p
}

// New builds a context.
func New(prop, tier string, shard, n int, seed int64, deadline time.Time) *Ctx {
	c := &Ctx{Prop: prop, Tier: tier, Shard: shard, N: n, Seed: seed, Deadline: deadline,
		counters: map[string]int64{}, findings: map[string]*Finding{}, start: time.Now()}
	if p := os.Getenv("VERIF_MARK"); p != "" {
		if f, err := os.OpenFile(p, os.O_RDWR|os.O_CREATE, 0o644); err == nil {
			const sz = 1 << 20
			if f.Truncate(sz) == nil {
				if m, err := syscall.Mmap(int(f.Fd()), 0, sz, syscall.PROT_READ|syscall.PROT_WRITE, syscall.MAP_SHARED); err == nil {
					c.mark = m
				}
			}
			f.Close()
		}
	}
	return c
}

// Thorough reports whether the thorough tier is running.
func (c *Ctx) Thorough() bool { return c.Tier == "thorough" }

// Mine advances the global case index and reports whether this shard owns the
// case. Every worker walks the same deterministic enumeration; the case is
// executed by exactly one of them.
func (c *Ctx) Mine() bool {
	i := c.idx
	c.idx++
	if i&1023 == 0 {
		c.beat()
	}
	if int((i+c.Seed)%int64(c.N)) != c.Shard {
		return false
	}
	c.States++
	if c.spaceCtr != nil {
		*c.spaceCtr++
	}
	return true
}

// MineBlock is Mine for a block of n cases that the owner enumerates itself.
func (c *Ctx) MineBlock(n int64) bool {
	i := c.idx
	c.idx++
	c.beat()
	if int((i+c.Seed)%int64(c.N)) != c.Shard {
		return false
	}
	c.States += n
	if c.spaceCtr != nil {
		*c.spaceCtr += n
	}
	return true
}

// Add counts n more cases inside a block this worker owns.
func (c *Ctx) Add(n int64) {
	c.beat()
	c.States += n
	if c.spaceCtr != nil {
		*c.spaceCtr += n
	}
}

// Index returns the number of cases (or blocks) walked so far.
func (c *Ctx) Index() int64 { return c.idx }

// Expired reports whether the tier deadline has passed (checked cheaply).
func (c *Ctx) Expired() bool {
	if c.expired {
		return true
	}
	c.tick++
	if c.tick&0x3f != 0 {
		return false
	}
	if !c.Deadline.IsZero() && time.Now().After(c.Deadline) {
		c.expired = true
		c.Note("deadline reached; remaining cases of this space not explored")
	}
	return c.expired
}

// ForceExpired marks the run as cut short.
func (c *Ctx) ForceExpired(why string) {
	if !c.expired {
		c.expired = true
		c.Note(why)
	}
}

// T counts n calls into the code under test.
func (c *Ctx) T(n int) { c.Transitions += int64(n); c.beat() }

// beat publishes a progress counter in the shared mapping. The driver declares a hang only when this
// counter stands still while the worker burns CPU time (a single case that does not end), never
// because wall-clock time has passed.
func (c *Ctx) beat() {
	if c.mark == nil {
		return
	}
	c.beats++
	v := c.beats
	m := c.mark[208:216]
	m[0], m[1], m[2], m[3], m[4], m[5], m[6], m[7] = byte(v), byte(v>>8), byte(v>>16), byte(v>>24), byte(v>>32), byte(v>>40), byte(v>>48), byte(v>>56)
}

// ReadBeat reads the progress counter of a (live or dead) worker's mark file.
func ReadBeat(path string) (uint64, bool) {
	f, err := os.Open(path)
	if err != nil {
		return 0, false
	}
	defer f.Close()
	var b [8]byte
	if n, _ := f.ReadAt(b[:], 208); n != 8 {
		return 0, false
	}
	return uint64(b[0]) | uint64(b[1])<<8 | uint64(b[2])<<16 | uint64(b[3])<<24 | uint64(b[4])<<32 | uint64(b[5])<<40 | uint64(b[6])<<48 | uint64(b[7])<<56, true
}

// NT counts a distinct non-trivial case.
func (c *Ctx) NT() { c.Nontrivial++; c.beat() }

// Count bumps a named counter.
func (c *Ctx) Count(name string, n int64) { c.counters[name] += n }

// Note attaches a remark to the evidence.
func (c *Ctx) Note(s string) {
	for _, x := range c.notes {
		if x == s {
			return
		}
	}
	c.notes = append(c.notes, s)
}

// Sample keeps a few explored cases written out. At most 6 per worker, taken
// at the 1st, 10th, 100th … offer so they spread over the space.
func (c *Ctx) Sample(mk func() interface{}) {
	c.sampleEvery++
	n := c.sampleEvery
	if len(c.samples) >= 6 {
		return
	}
	for n >= 10 && n%10 == 0 {
		n /= 10
	}
	if n == 1 {
		c.samples = append(c.samples, mk())
	}
}

// Mark records the case about to be executed in a shared mapping that
// survives the death of the process (fatal OOM, stack overflow).
func (c *Ctx) Mark(entry string, input []byte) {
	if c.mark == nil {
		return
	}
	m := c.mark
	n := len(entry)
	if n > 200 {
		n = 200
	}
	m[0] = byte(n)
	copy(m[1:], entry[:n])
	l := len(input)
	if l > len(m)-256 {
		l = len(m) - 256
	}
	m[201] = byte(l >> 24)
	m[202] = byte(l >> 16)
	m[203] = byte(l >> 8)
	m[204] = byte(l)
	copy(m[256:], input[:l])
}

// ReadMark decodes a mark file written by a dead worker.
func ReadMark(path string) (entry string, input []byte, ok bool) {
	m, err := os.ReadFile(path)
	if err != nil || len(m) < 256 {
		return "", nil, false
	}
	n := int(m[0])
	if n == 0 {
		return "", nil, false
	}
	entry = string(m[1 : 1+n])
	l := int(m[201])<<24 | int(m[202])<<16 | int(m[203])<<8 | int(m[204])
	if 256+l > len(m) {
		l = len(m) - 256
	}
	return entry, m[256 : 256+l], true
}

// Report records an oracle failure under a stable class key.
func (c *Ctx) Report(key, what string, rp Replay) {
	f := c.findings[key]
	if f == nil {
		rp.Property = c.Prop
		rp.Key = key
		if len(rp.Expected) > 2000 {
			rp.Expected = rp.Expected[:2000] + "…"
		}
		if len(rp.Observed) > 2000 {
			rp.Observed = rp.Observed[:2000] + "…"
		}
		if len(rp.Value) > 4000 {
			rp.Value = rp.Value[:4000] + "…"
		}
		f = &Finding{Key: key, What: what, Replay: rp}
		c.findings[key] = f
	}
	f.Count++
}

// Hex is a helper for replay files.
func Hex(b []byte) string { return hex.EncodeToString(b) }

// Short renders bytes for messages.
// ShortStr clips a string for messages.
func ShortStr(s string) string {
	if len(s) > 300 {
		return s[:300] + "..."
	}
	return s
}

func Short(b []byte) string {
	if len(b) <= 64 {
		return hex.EncodeToString(b)
	}
	return fmt.Sprintf("%s…(%d octets)", hex.EncodeToString(b[:64]), len(b))
}

// Result packages the worker's outcome.
func (c *Ctx) Result() *Result {
	r := &Result{Prop: c.Prop, Tier: c.Tier, Shard: c.Shard, N: c.N, States: c.States,
		Transitions: c.Transitions, Nontrivial: c.Nontrivial, Counters: c.counters,
		Samples: c.samples, Exhaustive: !c.expired, Notes: c.notes,
		WallS: time.Since(c.start).Seconds()}
	for k, v := range c.spaces {
		r.Counters["space:"+k] += *v
	}
	keys := make([]string, 0, len(c.findings))
	for k := range c.findings {
		keys = append(keys, k)
	}
	sort.Strings(keys)
	for _, k := range keys {
		r.Findings = append(r.Findings, c.findings[k])
	}
	return r
}

// Cover is set by the worker before WriteResult (statement-hit vector).
var Cover []uint8

// WriteResult dumps the result as JSON.
func (c *Ctx) WriteResult(path string) error {
	r := c.Result()
	if Cover != nil {
		r.Cover = hex.EncodeToString(Cover)
	}
	b, err := json.Marshal(r)
	if err != nil {
		return err
	}
	return os.WriteFile(path, b, 0o644)
}

// NormPath strips list indices from a field path so that keys do not depend
// on which element differed.
func NormPath(p string) string {
	var sb strings.Builder
	in := false
	last := rune(0)
	for _, r := range p {
		switch {
		case r == '[':
			in = true
			sb.WriteString("[]")
		case r == ']':
			in = false
		case !in:
			if r >= '0' && r <= '9' {
				r = '#'
				if last == '#' {
					continue
				}
			}
			if r == ' ' {
				r = '_'
			}
			sb.WriteRune(r)
			last = r
		}
	}
	return sb.String()
}

// Guard runs f and converts a panic into (msg, true).
func Guard(f func()) (msg string, panicked bool) {
	defer func() {
		if r := recover(); r != nil {
			msg = fmt.Sprint(r)
			panicked = true
		}
	}()
	f()
	return "", false
}

// PanicSite reduces a panic message to a value-independent class (digits
// dropped) so keys stay stable across inputs.
func PanicSite(msg string) string {
	var sb strings.Builder
	last := rune(0)
	for _, r := range msg {
		if r >= '0' && r <= '9' {
			r = '#'
		}
		if r == '#' && last == '#' {
			continue
		}
		sb.WriteRune(r)
		last = r
	}
	s := sb.String()
	if len(s) > 80 {
		s = s[:80]
	}
	return s
}
