package props

import (
	"bytes"
	"encoding/base64"
	"encoding/gob"
	"fmt"
	"math"

	"github.com/pion/rtcp"

	"verif/bx"
	"verif/ref"
)

// forD walks the well-formed domain D, sharded per block.
func forD(c *bx.Ctx, f func(v ref.V)) {
	stop := false
	ref.Domain(c.Thorough(), func() bool { return c.MineBlock(0) }, func(v ref.V) bool {
		if c.Expired() {
			stop = true
			return false
		}
		c.Add(1)
		f(v)
		return true
	})
	_ = stop
}

var markCtx *bx.Ctx

// SetCtx tells the call wrappers where to record the call in flight.
func SetCtx(c *bx.Ctx) { markCtx = c }

func mark(entry string, in []byte) {
	if markCtx != nil {
		markCtx.Mark(entry, in)
	}
}

// safeMarshal calls Marshal and converts a panic into an error-like result.
func safeMarshal(p rtcp.Packet) (out []byte, err error, pan string) {
	mark("Marshal:"+TypeName(p), nil)
	msg, panicked := bx.Guard(func() { out, err = p.Marshal() })
	if panicked {
		return nil, nil, msg
	}
	return out, err, ""
}

func safeOwn(typ string, b []byte) (q rtcp.Packet, err error, pan string) {
	e := EntryByName("own:" + typ)
	q = e.New()
	mark(e.Name, b)
	msg, panicked := bx.Guard(func() { err = q.Unmarshal(b) })
	if panicked {
		return nil, nil, msg
	}
	return q, err, ""
}

func safeDgram(b []byte) (ps []rtcp.Packet, err error, pan string) {
	mark("dgram", b)
	msg, panicked := bx.Guard(func() { ps, err = rtcp.Unmarshal(b) })
	if panicked {
		return nil, nil, msg
	}
	return ps, err, ""
}

// quantise returns a deep copy of v with the three documented quantisations
// applied: REMB bitrate rounded down to 18 significant bits, receiver-report
// profile extensions zero-padded to 32 bits (TWCC deltas in D are multiples
// of 250 us already).
func quantise(p rtcp.Packet) rtcp.Packet {
	q := ref.Clone(p).(rtcp.Packet)
	switch v := q.(type) {
	case *rtcp.ReceiverEstimatedMaximumBitrate:
		e, m := ref.RembEncode(v.Bitrate)
		v.Bitrate = float32(math.Ldexp(float64(m), int(e)))
	case *rtcp.ReceiverReport:
		for len(v.ProfileExtensions)%4 != 0 {
			v.ProfileExtensions = append(v.ProfileExtensions, 0)
		}
	case *rtcp.CompoundPacket:
		for i, m := range *v {
			(*v)[i] = quantise(m)
		}
	}
	return q
}

// shapeClass names the structural class that known findings are scoped to.
func shapeClass(p rtcp.Packet) string {
	switch v := p.(type) {
	case *rtcp.CCFeedbackReport:
		cls := ""
		for _, b := range v.ReportBlocks {
			if len(b.MetricBlocks) == 1 {
				cls = "one-metric-block"
			}
		}
		if cls != "" {
			return cls
		}
		for _, b := range v.ReportBlocks {
			if n := len(b.MetricBlocks); n > 1 && int(b.BeginSequence)+n-1 > 65535 {
				return "sequence-wrap"
			}
		}
	case *rtcp.ReceiverEstimatedMaximumBitrate:
		if v.Bitrate < 1 {
			return "bitrate-below-1"
		}
	case *rtcp.ApplicationDefined:
		if len(v.Data) > 0xFFFF-12 {
			return "data-over-65523"
		}
	}
	return ""
}

func valueString(v ref.V) string {
	s := fmt.Sprintf("%s :: %s", v.String(), ref.Dump(v.P))
	return s
}

type gobBox struct {
	P    rtcp.Packet
	Type string
}

func init() {
	for _, e := range Entries {
		if e.New != nil {
			gob.Register(e.New())
		}
	}
	for _, b := range ref.XRBlockAlphabet() {
		gob.Register(b.Make(ref.NewTagger()))
	}
	gob.Register(&rtcp.RunLengthChunk{})
	gob.Register(&rtcp.StatusVectorChunk{})
}

// valueGob serialises a packet value for replay files ("" if it cannot be serialised).
func valueGob(v ref.V) string {
	var buf bytes.Buffer
	if _, pan := bx.Guard(func() {
		if err := gob.NewEncoder(&buf).Encode(gobBox{P: v.P, Type: v.Type}); err != nil {
			buf.Reset()
		}
	}); pan {
		return ""
	}
	if buf.Len() > 200000 {
		return ""
	}
	return base64.StdEncoding.EncodeToString(buf.Bytes())
}

func valueFromGob(s string) (ref.V, error) {
	b, err := base64.StdEncoding.DecodeString(s)
	if err != nil {
		return ref.V{}, err
	}
	var box gobBox
	if err := gob.NewDecoder(bytes.NewReader(b)).Decode(&box); err != nil {
		return ref.V{}, err
	}
	return ref.V{P: box.P, Type: box.Type, Shape: "replayed"}, nil
}

func keyJoin(parts ...string) string {
	out := ""
	for _, p := range parts {
		if p == "" {
			continue
		}
		if out != "" {
			out += "/"
		}
		out += p
	}
	return out
}
