package props

import (
	"os"
	"path/filepath"
	"sort"
	"strconv"
	"strings"

	"verif/ref"
)

// seed is one valid (or corpus) encoding used as the centre of a byte-level
// deviation neighbourhood.
type seed struct {
	name string
	typ  string // packet type whose own decoder matches, "" for corpus files
	b    []byte
	ctl  []int // offsets of count/length control octets
	rep  bool  // representative of its type (gets the expensive sweeps)
}

func repoDir() string {
	if d := os.Getenv("VERIF_REPO"); d != "" {
		return d
	}
	return "/repo"
}

// corpusSeeds reads the six go-fuzz corpus files of the repository.
func corpusSeeds() []seed {
	var out []seed
	files, _ := filepath.Glob(filepath.Join(repoDir(), "testdata", "fuzz", "FuzzUnmarshal", "*"))
	sort.Strings(files)
	for _, f := range files {
		b, err := os.ReadFile(f)
		if err != nil {
			continue
		}
		for _, ln := range strings.Split(string(b), "\n") {
			ln = strings.TrimSpace(ln)
			if !strings.HasPrefix(ln, "[]byte(") || !strings.HasSuffix(ln, ")") {
				continue
			}
			s, err := strconv.Unquote(ln[len("[]byte(") : len(ln)-1])
			if err != nil {
				continue
			}
			out = append(out, seed{name: "corpus:" + filepath.Base(f), b: []byte(s)})
		}
	}
	return out
}

// byteSeeds: reference encodings of the core of D (every type x structural
// shape once), the C04 encoding variants, and the repository's fuzz corpus.
func byteSeeds(thorough bool) []seed {
	var out []seed
	opt, _, _ := ccfbReading()
	perType := map[string]int{}
	ref.Core(thorough, func(v ref.V) bool {
		w, err := ref.Encode(v.P, opt)
		if err != nil || len(w.B) > 1100 && !thorough || len(w.B) > 8192 { // seeds of at most 1100 octets (quick) / 8 KiB (thorough); larger encodings are base values of D, and C01's S2 / S4 spaces build their own large inputs
			return true
		}
		if v.Type == "SliceLossIndication" {
			// the library's own encoding (PT 205) as well as the RFC one
			if b, err, pan := safeMarshal(v.P); err == nil && pan == "" {
				out = append(out, seed{name: v.String() + "/own-encoding", typ: v.Type, b: append([]byte{}, b...), ctl: w.Ctl})
			}
		}
		perType[v.Type]++
		out = append(out, seed{name: v.String(), typ: v.Type, b: w.B, ctl: w.Ctl, rep: isRep(v, perType[v.Type])})
		return true
	})
	for _, vr := range ref.Variants(thorough) {
		out = append(out, seed{name: "variant:" + vr.Name, typ: vr.Type, b: vr.B, ctl: nil})
	}
	out = append(out, corpusSeeds()...)
	return out
}

// isRep picks about three small shapes per type for the expensive sweeps.
func isRep(v ref.V, nth int) bool {
	switch v.Shape {
	case "reports=2,ext=4", "reports=1,ext=0", "reports=0,ext=0", "reports=1,ext=5",
		"chunks=2,items=2,rot=1", "chunks=1,items=1,text=5", "chunks=0,items=0,rot=0",
		"sources=2,reason=5", "sources=0,reason=0", "sources=1,reason=0",
		"data=5", "data=0", "data=8", "pairs=2", "pairs=1", "entries=2", "entries=1", "",
		"ssrcs=2", "ssrcs=0", "blocks=2,metrics=2,begin=-1", "blocks=0,metrics=0,begin=-1", "blocks=1,metrics=3,begin=65534",
		"seq=7,chunking=rl,pbit=false", "seq=8,chunking=v2,pbit=true", "seq=0,chunking=rl,pbit=false", "seq=9,chunking=v1,pbit=false",
		"blocks=all-kinds", "blocks=0", "blocks=1:DLRR,reports=2", "blocks=1:LossRLE,chunks=2", "blocks=1:Unknown,bt=8,bytes=4",
		"pt=192,fmt=1,words=2,p=false", "pt=205,fmt=31,words=1,p=false", "shape=0", "shape=2":
		return true
	}
	return false
}
