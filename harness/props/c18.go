package props

import (
	"bytes"
	"context"
	"encoding/json"
	"fmt"
	"os"
	"os/exec"
	"path/filepath"
	"sort"
	"strings"
	"time"

	"github.com/pion/rtcp"

	"verif/bx"
	"verif/ref"
	"verif/sched"
)

// C18 — codec operations are pure and safe to run concurrently.

func init() {
	register(&Prop{ID: "C18", Run: runC18, Instr: true, DeathIsViolation: true,
		Rule: "(1) explicit-state history search: every sequence of <= k operations (Marshal, MarshalSize, DestinationSSRC, String, %+v, Header, Len, Unmarshal of a second buffer) on every type x 3 shapes, with deep snapshots of the packet, the input buffer, every package-level variable and all earlier results checked in every state; (2) stateless schedule search on the statement-instrumented build: every interleaving of 2 threads with at most b preemptions (every statement of package rtcp is a scheduling point) for drivers on distinct packets of the same type, on types sharing helpers, on one shared packet (read-only operations) and on one shared input buffer, results compared with the sequential run; (3) the same driver bodies free-running under the race detector (supporting evidence). Non-trivial = executions with >= 1 preemption, histories of length >= 2",
		Assumptions: []string{
			"granularity of layer 2 is the Go statement under sequential consistency; interleavings inside a statement or a standard-library call, word tearing and weak-memory effects are left to the race-detector pass",
			"package sync is routed through a cooperative shim (Mutex, RWMutex, Once, Pool, WaitGroup): lock waits are scheduling points and deadlocks are reported; go statements, channels and select inside package rtcp switch the schedule layer off and the run is marked not exhaustive",
			"every Unmarshal operation decodes into a fresh receiver: the statement speaks about the input buffer, not about decoding into a packet that already holds content (the pinned decoders append to existing lists)",
			"a positive control (a deliberately racy scratch-buffer codec driven by the same explorer) must be found violating in every run",
		},
		BoundsQuick:    "purity sweep over D; histories of length <= 3 over 13 operations; schedules: ~500 scenarios (same type, helper-sharing pairs, every pair of types, two operations per thread, three threads, shared packet, shared buffer), preemption bound 2 (bound 1 for executions above 250 scheduling points, for the all-pairs and the three-thread drivers)",
		BoundsThorough: "histories of length <= 5; schedules: preemption bound 3 for executions up to 140 scheduling points, 2 up to 700, 1 above; adds 3-thread drivers at bound 1-2",
	})
}

// ---------------------------------------------------------------- objects

type c18obj struct {
	typ   string
	shape string
	mk    func() rtcp.Packet
	alt   func() rtcp.Packet // a different value of the same type (count, length and every field differ)
}

var c18Shapes = map[string][3]string{
	"SenderReport":                    {"reports=2,ext=4", "reports=0,ext=0", "reports=1,ext=8"},
	"ReceiverReport":                  {"reports=1,ext=0", "reports=2,ext=5", "reports=0,ext=4"},
	"SourceDescription":               {"chunks=2,items=2,rot=1", "chunks=1,items=1,text=5", "chunks=0,items=0,rot=0"},
	"Goodbye":                         {"sources=2,reason=5", "sources=0,reason=0", "sources=1,reason=3"},
	"ApplicationDefined":              {"data=5", "data=0", "data=8"},
	"TransportLayerNack":              {"pairs=2", "pairs=1", "pairs=3"},
	"RapidResynchronizationRequest":   {"", "", ""},
	"PictureLossIndication":           {"", "", ""},
	"SliceLossIndication":             {"entries=2", "entries=1", "entries=3"},
	"FullIntraRequest":                {"entries=2", "entries=1", "entries=3"},
	"ReceiverEstimatedMaximumBitrate": {"ssrcs=2", "ssrcs=0", "ssrcs=3"},
	"CCFeedbackReport":                {"blocks=2,metrics=2,begin=-1", "blocks=0,metrics=0,begin=-1", "blocks=1,metrics=4,begin=0"},
	"TransportLayerCC":                {"seq=7,chunking=rl,pbit=false", "seq=8,chunking=v2,pbit=true", "seq=3,chunking=v1,pbit=false"},
	"ExtendedReport":                  {"blocks=all-kinds", "blocks=1:DLRR,reports=2", "blocks=0"},
	"RawPacket":                       {"pt=192,fmt=1,words=2,p=false", "pt=205,fmt=31,words=1,p=false", "pt=0,fmt=0,words=0,p=false"},
	"CompoundPacket":                  {"shape=0", "shape=1", "shape=2"},
}

func c18Objects() []c18obj {
	bs := map[string]func() rtcp.Packet{}
	for _, b := range ref.Builders(false) {
		bs[b.Type+"/"+b.Shape] = b.Make
	}
	var out []c18obj
	var types []string
	for t := range c18Shapes {
		types = append(types, t)
	}
	sort.Strings(types)
	for _, t := range types {
		sh := c18Shapes[t]
		for i := 0; i < 3; i++ {
			mk := bs[t+"/"+sh[i]]
			alt := bs[t+"/"+sh[(i+1)%3]]
			if mk == nil || alt == nil {
				continue
			}
			if i > 0 && sh[i] == sh[0] {
				continue
			}
			if sh[i] == sh[(i+1)%3] {
				// single-shape types: the alternative differs in every field
				base := mk
				alt = func() rtcp.Packet {
					p := base()
					for _, l := range ref.Leaves(p) {
						_ = l
					}
					return flipAll(p)
				}
			}
			out = append(out, c18obj{typ: t, shape: sh[i], mk: mk, alt: alt})
		}
	}
	return out
}

// flipAll inverts every SSRC-like field of the two-field feedback packets.
func flipAll(p rtcp.Packet) rtcp.Packet {
	switch v := p.(type) {
	case *rtcp.PictureLossIndication:
		v.SenderSSRC, v.MediaSSRC = ^v.SenderSSRC, ^v.MediaSSRC
	case *rtcp.RapidResynchronizationRequest:
		v.SenderSSRC, v.MediaSSRC = ^v.SenderSSRC, ^v.MediaSSRC
	}
	return p
}

// ---------------------------------------------------------------- operations

type c18op struct {
	name string
	ro   bool // read-only on the packet (safe on a shared packet)
	run  func(p rtcp.Packet, typ string, B []byte) (res string, keep interface{})
	has  func(p rtcp.Packet) bool
}

type lener interface{ Len() int }
type lener16 interface{ Len() uint16 }

var c18Ops = []c18op{
	{name: "Marshal", ro: true, run: func(p rtcp.Packet, _ string, _ []byte) (string, interface{}) {
		b, err := p.Marshal()
		return fmt.Sprintf("%x|%v", b, err), b
	}},
	{name: "MarshalSize", ro: true, run: func(p rtcp.Packet, _ string, _ []byte) (string, interface{}) { return fmt.Sprint(p.MarshalSize()), nil }},
	{name: "DestinationSSRC", ro: true, run: func(p rtcp.Packet, _ string, _ []byte) (string, interface{}) {
		d := p.DestinationSSRC()
		return fmt.Sprintf("%x", d), d
	}},
	{name: "String", ro: true, has: func(p rtcp.Packet) bool { _, ok := p.(fmt.Stringer); return ok },
		run: func(p rtcp.Packet, _ string, _ []byte) (string, interface{}) { return p.(fmt.Stringer).String(), nil }},
	{name: "Format+v", ro: true, run: func(p rtcp.Packet, _ string, _ []byte) (string, interface{}) { return fmt.Sprintf("%+v", p), nil }},
	{name: "Header", ro: true, has: func(p rtcp.Packet) bool { _, ok := p.(headerer); return ok },
		run: func(p rtcp.Packet, _ string, _ []byte) (string, interface{}) { return fmt.Sprintf("%+v", p.(headerer).Header()), nil }},
	{name: "Len", ro: true, has: func(p rtcp.Packet) bool {
		_, a := p.(lener)
		_, b := p.(lener16)
		return a || b
	}, run: func(p rtcp.Packet, _ string, _ []byte) (string, interface{}) {
		if l, ok := p.(lener); ok {
			return fmt.Sprint(l.Len()), nil
		}
		return fmt.Sprint(p.(lener16).Len()), nil
	}},
	{name: "Unmarshal(B)", ro: true, run: func(_ rtcp.Packet, typ string, B []byte) (string, interface{}) {
		q := EntryByName("own:" + typ).New()
		err := q.Unmarshal(B)
		return fmt.Sprintf("%s|%v", ref.Dump(q), err), q
	}},
	{name: "MarshalList[p,q]", ro: true, run: func(p rtcp.Packet, _ string, _ []byte) (string, interface{}) {
		q := &rtcp.TransportLayerNack{SenderSSRC: 0x51525354, MediaSSRC: 0x61626364, Nacks: []rtcp.NackPair{{PacketID: 0x7172, LostPackets: 0x8182}}}
		b, err := rtcp.Marshal([]rtcp.Packet{p, q})
		return fmt.Sprintf("%x|%v", b, err), b
	}},
	{name: "DgramDecodeThenMarshalList(B||F)", ro: true, run: func(_ rtcp.Packet, _ string, B []byte) (string, interface{}) {
		// the arena holds a second frame F right after B: decode both, then marshal the first
		// decoded packet followed by a different packet
		if cap(B) < len(B)+len(c18SecondFrame) {
			return "no room", nil
		}
		ps, err := rtcp.Unmarshal(B[:len(B)+len(c18SecondFrame)])
		if err != nil || len(ps) == 0 {
			return "decode: " + fmt.Sprint(err), nil
		}
		q := &rtcp.TransportLayerNack{SenderSSRC: 0x51525354, MediaSSRC: 0x61626364, Nacks: []rtcp.NackPair{{PacketID: 0x7172, LostPackets: 0x8182}}}
		b, err := rtcp.Marshal([]rtcp.Packet{ps[0], q})
		return fmt.Sprintf("%x|%v", b, err), b
	}},
	{name: "DecodeThenMarshal(B)", ro: true, run: func(_ rtcp.Packet, typ string, B []byte) (string, interface{}) { return decodeThenMarshal(typ, B, 0) }},
	{name: "DecodeThenMarshal(B+1)", ro: true, run: func(_ rtcp.Packet, typ string, B []byte) (string, interface{}) { return decodeThenMarshal(typ, B, 1) }},
	{name: "DecodeThenMarshal(B+3)", ro: true, run: func(_ rtcp.Packet, typ string, B []byte) (string, interface{}) { return decodeThenMarshal(typ, B, 3) }},
}

// c18SecondFrame follows the input buffer B inside its arena (a PLI frame).
var c18SecondFrame = []byte{0x81, 206, 0, 2, 0x11, 0x12, 0x13, 0x14, 0x21, 0x22, 0x23, 0x24}

// decodeThenMarshal decodes the buffer (optionally extended by a few octets of
// its own spare capacity, giving an unaligned length) with the type's own
// decoder and marshals the decoded packet, which may alias the buffer.
func decodeThenMarshal(typ string, B []byte, ext int) (string, interface{}) {
	in := B
	if ext > 0 && cap(B) >= len(B)+ext {
		in = B[:len(B)+ext]
	}
	q := EntryByName("own:" + typ).New()
	if err := q.Unmarshal(in); err != nil {
		return "decode: " + err.Error(), nil
	}
	b, err := q.Marshal()
	return fmt.Sprintf("%x|%v", b, err), b
}

func globalsSnapshot() string {
	g := rtcp.VerifGlobals()
	names := make([]string, 0, len(g))
	for k := range g {
		names = append(names, k)
	}
	sort.Strings(names)
	var sb strings.Builder
	ref.DumpSkipSync = true
	for _, k := range names {
		sb.WriteString(k + "=" + ref.Dump(g[k]) + "\n")
	}
	ref.DumpSkipSync = false
	return sb.String()
}

// isXR reports whether Marshal is documented to fill block headers.
func hasXR(p rtcp.Packet) bool {
	switch v := p.(type) {
	case *rtcp.ExtendedReport:
		return true
	case *rtcp.CompoundPacket:
		for _, m := range *v {
			if hasXR(m) {
				return true
			}
		}
	}
	return false
}

// ---------------------------------------------------------------- layer 1: histories

type kept struct {
	op   string
	live interface{}
	copy string
}

func keptString(v interface{}) string {
	switch x := v.(type) {
	case []byte:
		return fmt.Sprintf("%x", x)
	case []uint32:
		return fmt.Sprintf("%x", x)
	case rtcp.Packet:
		return ref.Dump(x)
	}
	return ""
}

func c18Histories(c *bx.Ctx) {
	c.Space("histories")
	maxLen := 3
	if c.Thorough() {
		maxLen = 5
	}
	// warm-up: run every operation once so that one-time lazy initialisation (if a change
	// introduces any) has happened before the package-variable snapshot is taken
	for _, o := range c18Objects() {
		w, _, _ := safeMarshal(o.alt())
		for _, op := range c18Ops {
			if op.has == nil || op.has(o.mk()) {
				_, _ = bx.Guard(func() { op.run(o.mk(), o.typ, append([]byte{}, w...)) })
			}
		}
	}
	g0 := globalsSnapshot()
	for _, o := range c18Objects() {
		// buffer B: the encoding of a different value of the same type
		B0, err, pan := safeMarshal(o.alt())
		if err != nil || pan != "" {
			B0 = []byte{0x80, 200, 0, 0}
		}
		B0 = append([]byte{}, B0...)
		var ops []c18op
		for _, op := range c18Ops {
			if op.has == nil || op.has(o.mk()) {
				ops = append(ops, op)
			}
		}
		xr := hasXR(o.mk())
		// every slice of the packet gets spare capacity filled with a sentinel, and the input
		// buffer sits inside a larger arena, so writes past a slice's length are observable
		mkp := func() rtcp.Packet { p := o.mk(); ref.PadCapacity(p, 3); return p }
		mkB := func() (arena, B []byte) {
			arena = make([]byte, len(B0)+len(c18SecondFrame)+16)
			copy(arena, B0)
			copy(arena[len(B0):], c18SecondFrame)
			for i := len(B0) + len(c18SecondFrame); i < len(arena); i++ {
				arena[i] = 0xEE
			}
			return arena, arena[:len(B0):len(arena)]
		}
		arena0, _ := mkB()
		// snapshots and baseline results in the initial and (XR) header-filled state
		snapInit := ref.DumpCap(mkp())
		filled := mkp()
		_, _ = filled.Marshal()
		snapFilled := ref.DumpCap(filled)
		refilled := mkp()
		_, _ = refilled.Marshal()
		_, _ = refilled.Marshal()
		if ref.DumpCap(refilled) != snapFilled && c.Shard == 0 {
			c.Report(keyJoin("C18/history", o.typ, "header-fill-not-idempotent"), "a second Marshal changes the packet again", bx.Replay{Entry: "Marshal;Marshal", Value: o.typ + "{" + o.shape + "}", Expected: snapFilled, Observed: ref.DumpCap(refilled)})
		}
		if !xr && snapFilled != snapInit && c.Shard == 0 {
			c.Report(keyJoin("C18/history", o.typ, "Marshal-mutates-packet"), "Marshal modifies the packet", bx.Replay{Entry: "Marshal", Value: o.typ + "{" + o.shape + "}", Expected: snapInit, Observed: snapFilled})
		}
		base := map[string][2]string{}
		for _, op := range ops {
			_, b1 := mkB()
			r0, _ := op.run(mkp(), o.typ, b1)
			f := mkp()
			_, _ = f.Marshal()
			_, b2 := mkB()
			r1, _ := op.run(f, o.typ, b2)
			base[op.name] = [2]string{r0, r1}
		}
		c.T(2 * len(ops))
		idx := make([]int, 0, maxLen)
		var run func()
		run = func() {
			p := mkp()
			arena, B := mkB()
			var keeps []kept
			marshalled := false
			names := ""
			rp := func(step int, exp, obs string) bx.Replay {
				return bx.Replay{Entry: "history", Value: o.typ + "{" + o.shape + "}", Ops: names + fmt.Sprintf(" (after step %d)", step), Expected: exp, Observed: obs}
			}
			for step, i := range idx {
				op := ops[i]
				names += op.name + ";"
				var res string
				var keep interface{}
				msg, pan := bx.Guard(func() { res, keep = op.run(p, o.typ, B) })
				c.T(1)
				if pan {
					c.Report(keyJoin("C18/history", o.typ, op.name, "panic"), "an operation panics in a history: "+msg, rp(step, "result", "panic: "+msg))
					return
				}
				if op.name == "Marshal" || op.name == "MarshalList[p,q]" {
					marshalled = true // both marshal p itself (ExtendedReport: fills block headers, documented)
				}
				st := 0
				if xr && marshalled {
					st = 1
				}
				if want := base[op.name][st]; res != want {
					c.Report(keyJoin("C18/history", o.typ, op.name, "result-depends-on-history"), "an operation returns a different result depending on what was called before", rp(step, want, res))
					return
				}
				snap := ref.DumpCap(p)
				wantSnap := snapInit
				if st == 1 {
					wantSnap = snapFilled
				}
				if snap != wantSnap {
					c.Report(keyJoin("C18/history", o.typ, op.name, "packet-modified"), op.name+" modifies the packet", rp(step, wantSnap, snap))
					return
				}
				if !bytes.Equal(arena, arena0) {
					c.Report(keyJoin("C18/history", o.typ, op.name, "input-buffer-modified"), op.name+" modifies the input buffer or the memory following it", rp(step, bx.Short(arena0), bx.Short(arena)))
					return
				}
				for _, k := range keeps {
					if keptString(k.live) != k.copy {
						c.Report(keyJoin("C18/history", o.typ, op.name, "earlier-result-overwritten"), "a result returned earlier ("+k.op+") changed after "+op.name+" (shared scratch buffer?)", rp(step, k.copy, keptString(k.live)))
						return
					}
				}
				if keep != nil {
					keeps = append(keeps, kept{op.name, keep, keptString(keep)})
				}
			}
			if g := globalsSnapshot(); g != g0 {
				c.Report(keyJoin("C18/history", o.typ, "package-variable-modified"), "a package-level variable changed during a history", rp(len(idx), g0, g))
				return
			}
			if len(idx) >= 2 {
				c.NT()
			}
			c.Sample(func() interface{} { return map[string]string{"layer": "history", "object": o.typ + "{" + o.shape + "}", "ops": names} })
		}
		var rec func()
		rec = func() {
			if len(idx) > 0 {
				run()
				c.Add(1)
			}
			if len(idx) == maxLen {
				return
			}
			for i := range ops {
				idx = append(idx, i)
				rec()
				idx = idx[:len(idx)-1]
			}
		}
		for i := range ops {
			if !c.MineBlock(0) {
				continue
			}
			if c.Expired() {
				return
			}
			idx = append(idx[:0], i)
			rec()
		}
	}
}

// ---------------------------------------------------------------- layer 2: schedules

type c18thread struct {
	name string
	body func() string // returns the observable result
}

type c18scenario struct {
	name    string
	mk      func() (threads []c18thread, final func() string) // fresh state per execution; final = observable shared state
	driver  string
}

func opByName(n string) c18op {
	for _, o := range c18Ops {
		if o.name == n {
			return o
		}
	}
	panic(n)
}

func c18Scenarios(thorough bool) []c18scenario {
	var out []c18scenario
	objs := c18Objects()
	byType := map[string][]c18obj{}
	for _, o := range objs {
		byType[o.typ] = append(byType[o.typ], o)
	}
	var types []string
	for t := range byType {
		types = append(types, t)
	}
	sort.Strings(types)
	wireOf := func(mk func() rtcp.Packet) []byte {
		b, err, pan := safeMarshal(mk())
		if err != nil || pan != "" {
			return []byte{0x80, 200, 0, 0}
		}
		return append([]byte{}, b...)
	}
	distinct := func(name string, ta, tb string, oa, ob c18obj, opa, opb string) {
		a, b := opByName(opa), opByName(opb)
		if a.has != nil && !a.has(oa.mk()) || b.has != nil && !b.has(ob.mk()) {
			return
		}
		wa, wb := wireOf(oa.alt), wireOf(ob.alt)
		out = append(out, c18scenario{name: name, driver: "A-distinct-packets", mk: func() ([]c18thread, func() string) {
			pa, pb := oa.mk(), ob.mk()
			ref.PadCapacity(pa, 3)
			ref.PadCapacity(pb, 3)
			xa, xb := hasXR(pa), hasXR(pb)
			Ba, Bb := append([]byte{}, wa...), append([]byte{}, wb...)
			return []c18thread{
					{opa + "(" + ta + ")", func() string { r, _ := a.run(pa, ta, Ba); return r }},
					{opb + "(" + tb + ")", func() string { r, _ := b.run(pb, tb, Bb); return r }},
				}, func() string {
					// the packets themselves are part of the observable final state, except that
					// ExtendedReport.Marshal may fill block headers (documented)
					sa, sb := "", ""
					if !xa {
						sa = ref.DumpCap(pa)
					}
					if !xb {
						sb = ref.DumpCap(pb)
					}
					return fmt.Sprintf("%x|%x|%s|%s", Ba, Bb, sa, sb)
				}
		}})
	}
	for _, t := range types {
		os := byType[t]
		if len(os) < 2 {
			os = append(os, c18obj{typ: t, shape: os[0].shape + "'", mk: os[0].alt, alt: os[0].mk})
		}
		for _, pair := range [][2]string{{"Marshal", "Marshal"}, {"Marshal", "Unmarshal(B)"}, {"Unmarshal(B)", "Unmarshal(B)"}, {"String", "Marshal"}, {"DestinationSSRC", "MarshalSize"}, {"Format+v", "Unmarshal(B)"}} {
			distinct(fmt.Sprintf("A:%s %s||%s", t, pair[0], pair[1]), t, t, os[0], os[1], pair[0], pair[1])
		}
	}
	// types that share helpers (header codec, reception reports, packetBuffer, bit setters)
	for _, tp := range [][2]string{{"SenderReport", "ReceiverReport"}, {"TransportLayerNack", "SliceLossIndication"}, {"PictureLossIndication", "FullIntraRequest"},
		{"TransportLayerCC", "CCFeedbackReport"}, {"ExtendedReport", "SourceDescription"}, {"Goodbye", "ApplicationDefined"}, {"ReceiverEstimatedMaximumBitrate", "RapidResynchronizationRequest"},
		{"CompoundPacket", "SenderReport"}, {"RawPacket", "TransportLayerCC"}} {
		if len(byType[tp[0]]) == 0 || len(byType[tp[1]]) == 0 {
			continue
		}
		for _, pair := range [][2]string{{"Marshal", "Marshal"}, {"Unmarshal(B)", "Marshal"}, {"Marshal", "Unmarshal(B)"}, {"Unmarshal(B)", "Unmarshal(B)"}} {
			distinct(fmt.Sprintf("A':%s.%s||%s.%s", tp[0], pair[0], tp[1], pair[1]), tp[0], tp[1], byType[tp[0]][0], byType[tp[1]][0], pair[0], pair[1])
		}
	}
	// every unordered pair of types: encoders and formatters side by side (state shared between
	// two types that no hand-picked pair lists)
	for i, ta := range types {
		for _, tb := range types[i+1:] {
			distinct(fmt.Sprintf("A'':%s.Marshal||%s.Marshal", ta, tb), ta, tb, byType[ta][0], byType[tb][0], "Marshal", "Marshal")
			distinct(fmt.Sprintf("A'':%s.Format+v||%s.Format+v", ta, tb), ta, tb, byType[ta][0], byType[tb][0], "Format+v", "Format+v")
		}
	}
	// two operations per thread
	for _, t := range types {
		os := byType[t]
		if len(os) < 2 {
			continue
		}
		t := t
		m, un := opByName("Marshal"), opByName("Unmarshal(B)")
		wa, wb := wireOf(os[0].alt), wireOf(os[1].alt)
		out = append(out, c18scenario{name: fmt.Sprintf("A2:%s Marshal;Unmarshal || Unmarshal;Marshal", t), driver: "A2-two-ops-per-thread", mk: func() ([]c18thread, func() string) {
			pa, pb := os[0].mk(), os[1].mk()
			Ba, Bb := append([]byte{}, wa...), append([]byte{}, wb...)
			return []c18thread{
				{"Marshal;Unmarshal", func() string { r1, _ := m.run(pa, t, nil); r2, _ := un.run(nil, t, Ba); return r1 + "#" + r2 }},
				{"Unmarshal;Marshal", func() string { r1, _ := un.run(nil, t, Bb); r2, _ := m.run(pb, t, nil); return r1 + "#" + r2 }},
			}, func() string { return fmt.Sprintf("%x|%x", Ba, Bb) }
		}})
	}
	// (B) read-only operations on one shared packet
	for _, t := range types {
		o := byType[t][0]
		for _, pair := range [][2]string{{"Marshal", "Marshal"}, {"Marshal", "String"}, {"MarshalSize", "DestinationSSRC"}, {"Marshal", "DestinationSSRC"}, {"Format+v", "Marshal"}, {"Header", "Marshal"}} {
			a, b := opByName(pair[0]), opByName(pair[1])
			if a.has != nil && !a.has(o.mk()) || b.has != nil && !b.has(o.mk()) {
				continue
			}
			if hasXR(o.mk()) && (pair[0] == "Marshal" || pair[1] == "Marshal") {
				continue // ExtendedReport.Marshal writes block headers (documented): not a read-only operation
			}
			o, t, pair := o, t, pair
			out = append(out, c18scenario{name: fmt.Sprintf("B:%s shared %s||%s", t, pair[0], pair[1]), driver: "B-shared-packet", mk: func() ([]c18thread, func() string) {
				p := o.mk()
				ref.PadCapacity(p, 3)
				if hasXR(p) {
					_, _ = p.Marshal() // documented: XR Marshal fills block headers; share the packet after that
				}
				return []c18thread{
					{pair[0], func() string { r, _ := a.run(p, t, nil); return r }},
					{pair[1], func() string { r, _ := b.run(p, t, nil); return r }},
				}, func() string { return ref.DumpCap(p) }
			}})
		}
	}
	// (C) two decoders on one shared input buffer
	for _, t := range types {
		o := byType[t][0]
		w := wireOf(o.mk)
		t := t
		un := opByName("Unmarshal(B)")
		out = append(out, c18scenario{name: fmt.Sprintf("C:%s shared buffer Unmarshal||Unmarshal", t), driver: "C-shared-buffer", mk: func() ([]c18thread, func() string) {
			B := append([]byte{}, w...)
			return []c18thread{
				{"Unmarshal", func() string { r, _ := un.run(nil, t, B); return r }},
				{"Unmarshal", func() string { r, _ := un.run(nil, t, B); return r }},
			}, func() string { return fmt.Sprintf("%x", B) }
		}})
		out = append(out, c18scenario{name: fmt.Sprintf("C:%s shared buffer dgram||Unmarshal", t), driver: "C-shared-buffer", mk: func() ([]c18thread, func() string) {
			B := append([]byte{}, w...)
			return []c18thread{
				{"dgram", func() string { ps, err := rtcp.Unmarshal(B); return fmt.Sprintf("%s|%v", ref.Dump(ps), err) }},
				{"Unmarshal", func() string { r, _ := un.run(nil, t, B); return r }},
			}, func() string { return fmt.Sprintf("%x", B) }
		}})
	}
	{
		// three threads: two encoders and a decoder of the same type
		for _, t := range types {
			os := byType[t]
			if len(os) < 3 {
				continue
			}
			t := t
			m, un := opByName("Marshal"), opByName("Unmarshal(B)")
			w := wireOf(os[2].mk)
			out = append(out, c18scenario{name: fmt.Sprintf("A3:%s Marshal||Marshal||Unmarshal", t), driver: "A3-three-threads", mk: func() ([]c18thread, func() string) {
				pa, pb := os[0].mk(), os[1].mk()
				B := append([]byte{}, w...)
				return []c18thread{
					{"Marshal", func() string { r, _ := m.run(pa, t, nil); return r }},
					{"Marshal", func() string { r, _ := m.run(pb, t, nil); return r }},
					{"Unmarshal", func() string { r, _ := un.run(nil, t, B); return r }},
				}, func() string { return fmt.Sprintf("%x", B) }
			}})
		}
	}
	return out
}

// c18Poisoned is set when an execution deadlocked (package-level locks of the code under test may
// be left held, so no further schedule exploration starts from a clean state).
var c18Poisoned bool

func c18Explore(c *bx.Ctx, sc c18scenario, bound, maxExec int) (sched.Stats, bool) {
	// sequential baseline on fresh state, each thread alone
	ths, fin := sc.mk()
	want := make([]string, len(ths))
	for i, t := range ths {
		want[i] = t.body()
	}
	wantFinal := fin()
	g0 := globalsSnapshot()
	got := make([]string, len(ths))
	var curFinal func() string
	violated := false
	preempted := 0
	var x *sched.Explorer
	x = &sched.Explorer{Bound: bound, MaxExec: maxExec, SetHook: setHook,
		Bodies: func() []func() {
			ths, fin := sc.mk()
			curFinal = fin
			bodies := make([]func(), len(ths))
			for i := range ths {
				i := i
				got[i] = "<not run>"
				bodies[i] = func() { got[i] = ths[i].body() }
			}
			return bodies
		},
		Check: func(schedule []int, pans []interface{}) {
			c.T(len(ths))
			nz := 0
			for _, s := range schedule {
				if s != 0 {
					nz++
				}
			}
			if nz > 1 {
				preempted++
			}
			if violated {
				return
			}
			defer func() {
				if violated {
					x.Abort = true // the first counterexample has the fewest deviations; stop this scenario
				}
			}()
			rp := func(exp, obs string) bx.Replay {
				return bx.Replay{Entry: "schedule", Value: sc.name, Ops: compressSchedule(schedule), Expected: exp, Observed: obs}
			}
			if len(pans) > 0 {
				violated = true
				if _, dl := pans[0].(sched.DeadlockPanic); dl {
					c18Poisoned = true // locks may still be held: later executions would not start from a clean state
					c.Report(keyJoin("C18/schedule", sc.driver, "deadlock"), "concurrent operations deadlock under an interleaving ("+sc.name+")", rp("both operations return", "every live thread is waiting"))
					return
				}
				c.Report(keyJoin("C18/schedule", sc.driver, "panic"), fmt.Sprintf("an operation panics under an interleaving (%s): %v", sc.name, pans[0]), rp("results of the sequential run", fmt.Sprint(pans[0])))
				return
			}
			for i := range got {
				if got[i] != want[i] {
					violated = true
					c.Report(keyJoin("C18/schedule", sc.driver, "result-differs-from-sequential"), fmt.Sprintf("under an interleaving with <= %d preemptions thread %d (%s) returns a different result than when run sequentially (%s)", bound, i, ths[i].name, sc.name), rp(want[i], got[i]))
					return
				}
			}
			if f := curFinal(); f != wantFinal {
				violated = true
				c.Report(keyJoin("C18/schedule", sc.driver, "shared-object-modified"), "a shared packet or input buffer is modified by concurrent operations ("+sc.name+")", rp(wantFinal, f))
				return
			}
		},
	}
	st := x.Run()
	if g := globalsSnapshot(); g != g0 && !violated {
		violated = true
		c.Report(keyJoin("C18/schedule", sc.driver, "package-variable-modified"), "a package-level variable changed during concurrent operations ("+sc.name+")", bx.Replay{Entry: "schedule", Value: sc.name, Expected: g0, Observed: g})
	}
	c.Count("schedule-executions", int64(st.Executions))
	c.Count("schedule-executions-with-preemption", int64(preempted))
	c.Nontrivial += int64(preempted)
	return st, violated
}

func compressSchedule(s []int) string {
	// choice list, run-length compressed: "0x57 1 0x12 ..."
	var sb strings.Builder
	for i := 0; i < len(s); {
		j := i
		for j < len(s) && s[j] == s[i] {
			j++
		}
		if j-i > 1 {
			fmt.Fprintf(&sb, "%dx%d ", s[i], j-i)
		} else {
			fmt.Fprintf(&sb, "%d ", s[i])
		}
		i = j
	}
	return sb.String()
}

// positive control: a deliberately racy codec with a package-level scratch
// buffer, driven by the same explorer through the same yield hook.
var controlScratch [4]byte

func controlEncode(v uint32) string {
	sched.Yield()
	controlScratch[0] = byte(v >> 24)
	sched.Yield()
	controlScratch[1] = byte(v >> 16)
	sched.Yield()
	controlScratch[2] = byte(v >> 8)
	sched.Yield()
	controlScratch[3] = byte(v)
	sched.Yield()
	out := fmt.Sprintf("%x", controlScratch[:])
	return out
}

func c18Control(c *bx.Ctx) bool {
	found := false
	for bound := 0; bound <= 2 && !found; bound++ {
		var got [2]string
		x := &sched.Explorer{Bound: bound, SetHook: func(func()) {},
			Bodies: func() []func() {
				return []func(){func() { got[0] = controlEncode(0x01020304) }, func() { got[1] = controlEncode(0xa1a2a3a4) }}
			},
			Check: func([]int, []interface{}) {
				if got[0] != "01020304" || got[1] != "a1a2a3a4" {
					found = true
				}
			}}
		st := x.Run()
		c.Count("control-executions", int64(st.Executions))
	}
	return found
}

func instrSyncShimmed() bool {
	b, err := os.ReadFile(os.Getenv("VERIF_INFO"))
	if err != nil {
		return false
	}
	var info struct {
		S bool `json:"sync_shimmed"`
	}
	_ = json.Unmarshal(b, &info)
	return info.S
}

func instrInfo() (unsupported []string, points int) {
	b, err := os.ReadFile(os.Getenv("VERIF_INFO"))
	if err != nil {
		return nil, 0
	}
	var info struct {
		Unsupported []string `json:"unsupported"`
		Points      int      `json:"static_points"`
	}
	_ = json.Unmarshal(b, &info)
	return info.Unsupported, info.Points
}

func c18Schedules(c *bx.Ctx) {
	c.Space("schedules")
	if !c.Instr {
		c.ForceExpired("statement-instrumented build unavailable: schedule layer not run")
		return
	}
	unsup, pts := instrInfo()
	c.Note(fmt.Sprintf("instrumentation: %d static scheduling points in package rtcp", pts))
	blocking := false
	for _, u := range unsup {
		if strings.Contains(u, "go statement") || strings.Contains(u, "channel") || strings.Contains(u, "select") {
			blocking = true
		}
	}
	if instrSyncShimmed() {
		c.Note("package rtcp uses package sync: in the instrumented build it is routed through a cooperative shim (Mutex, RWMutex, Once, Pool, WaitGroup), so lock waits are scheduling points and deadlocks are detected")
	}
	if blocking {
		c.ForceExpired("package rtcp uses " + strings.Join(unsup, ", ") + ": blocking primitives are not intercepted by the cooperative scheduler; schedule layer skipped (history and race-detector layers still run)")
		return
	}
	if c.Shard == 0 {
		if !c18Control(c) {
			c.Report("C18/harness/positive-control-missed", "HARNESS: the explorer did not find the deliberately racy control codec violating at preemption bound <= 2", bx.Replay{Entry: "control", Expected: "violation found", Observed: "not found"})
		} else {
			c.Count("control_detected", 1)
		}
	}
	for _, sc := range c18Scenarios(c.Thorough()) {
		if !c.MineBlock(0) {
			continue
		}
		if c.Expired() {
			return
		}
		if c18Poisoned {
			c.ForceExpired("a deadlock was found; locks of the code under test may still be held, the remaining scenarios of this worker were not explored")
			return
		}
		// size the bound by the length of the default execution
		st0, bad := c18Explore(c, sc, 0, 0)
		c.Add(int64(st0.Executions))
		if bad {
			continue
		}
		bound := 2
		if st0.MaxPoints > 250 {
			bound = 1
		}
		if c.Thorough() {
			switch {
			case st0.MaxPoints <= 140:
				bound = 3
			case st0.MaxPoints <= 700:
				bound = 2
			default:
				bound = 1
			}
		}
		if strings.HasPrefix(sc.name, "A3:") {
			bound = 1
			if c.Thorough() && st0.MaxPoints <= 100 {
				bound = 2
			}
		}
		if strings.HasPrefix(sc.name, "A'':") && !c.Thorough() {
			bound = 1
		}
		for b := 1; b <= bound; b++ {
			st, bad := c18Explore(c, sc, b, 3_000_000)
			c.Add(int64(st.Executions))
			if st.Capped {
				c.ForceExpired(fmt.Sprintf("execution cap reached in %s at bound %d", sc.name, b))
			}
			if st.Runaway {
				c.Note("an execution exceeded the scheduling-point limit and was finished without further branching: " + sc.name)
			}
			if bad {
				break
			}
			c.Count(fmt.Sprintf("scenarios-completed-at-bound-%d", b), 1)
		}
		c.Sample(func() interface{} {
			return map[string]interface{}{"layer": "schedule", "scenario": sc.name, "points_in_default_execution": st0.MaxPoints, "bound": bound}
		})
	}
}

// replayC18Schedule re-explores the recorded scenario (bounds 0..2) on the instrumented build and
// reports whether the recorded finding class fires again.
func replayC18Schedule(rp bx.Replay) string {
	if !InstrBuild {
		return "(schedule findings replay on the instrumented build only: run ./verify replay with VERIF_COVERAGE=1)"
	}
	for _, thorough := range []bool{false, true} {
		for _, sc := range c18Scenarios(thorough) {
			if sc.name != rp.Value {
				continue
			}
			c := bx.New("C18", "quick", 0, 1, 0, time.Time{})
			for b := 0; b <= 2; b++ {
				if _, bad := c18Explore(c, sc, b, 3_000_000); bad {
					break
				}
			}
			for _, f := range c.Result().Findings {
				if f.Key == rp.Key {
					return rp.Observed
				}
			}
			return "finding " + rp.Key + " does not fire when the scenario is re-explored up to bound 2"
		}
	}
	return "scenario not found: " + rp.Value
}

// ---------------------------------------------------------------- layer 3: race detector

// RunRacePass is the body of the free-running pass (vcheck-race -racepass).
func RunRacePass() {
	scs := c18Scenarios(false)
	for round := 0; round < 20; round++ {
		for _, sc := range scs {
			ths, _ := sc.mk()
			done := make(chan struct{}, len(ths))
			for _, t := range ths {
				t := t
				go func() { _ = t.body(); done <- struct{}{} }()
			}
			for range ths {
				<-done
			}
		}
	}
}

func c18RacePass(c *bx.Ctx) {
	if c.Shard != 0 {
		return
	}
	self, _ := os.Executable()
	bin := filepath.Join(filepath.Dir(self), "vcheck-race")
	if _, err := os.Stat(bin); err != nil {
		c.Note("race-enabled build unavailable: free-running race-detector pass not run")
		return
	}
	ctx, cancel := context.WithTimeout(context.Background(), 180*time.Second)
	defer cancel()
	cmd := exec.CommandContext(ctx, bin, "-racepass")
	cmd.Env = append(os.Environ(), "GOMAXPROCS=8", "GORACE=halt_on_error=0 exitcode=66")
	out, err := cmd.CombinedOutput()
	c.T(1)
	if ctx.Err() != nil {
		// supporting layer only: a hang under free-running goroutines (deadlocks are decided by the schedule layer)
		c.ForceExpired("the free-running race-detector pass did not finish within 180 s and was stopped")
		return
	}
	if strings.Contains(string(out), "DATA RACE") {
		s := string(out)
		if len(s) > 3000 {
			s = s[:3000]
		}
		c.Report("C18/race-detector/data-race", "the race detector reports a data race between codec operations on distinct packets / read-only operations on a shared packet", bx.Replay{Entry: "vcheck-race -racepass", Expected: "no race", Observed: s})
		return
	}
	if err != nil {
		c.Note("race pass ended with " + err.Error())
		return
	}
	c.Count("race-pass-clean", 1)
}

// c18Purity runs a fixed short history on every value of D (and on TWCC values whose deltas are
// not multiples of 250us): the packet, including the spare capacity of its slices, must be the
// same before and after every operation and repeated operations must return identical results.
func c18Purity(c *bx.Ctx) {
	c.Space("purity-over-D")
	one := func(v ref.V) {
		p := v.P
		ref.PadCapacity(p, 2)
		xr := hasXR(p)
		snap := ref.DumpCap(p)
		type step struct {
			name string
			run  func() string
		}
		steps := []step{
			{"MarshalSize", func() string { return fmt.Sprint(p.MarshalSize()) }},
			{"DestinationSSRC", func() string { return fmt.Sprintf("%x", p.DestinationSSRC()) }},
			{"Format+v", func() string { return fmt.Sprintf("%+v", p) }},
			{"Marshal", func() string { b, err := p.Marshal(); return fmt.Sprintf("%x|%v", b, err) }},
			{"Marshal", func() string { b, err := p.Marshal(); return fmt.Sprintf("%x|%v", b, err) }},
			{"Format+v", func() string { return fmt.Sprintf("%+v", p) }},
			{"DestinationSSRC", func() string { return fmt.Sprintf("%x", p.DestinationSSRC()) }},
			{"MarshalSize", func() string { return fmt.Sprint(p.MarshalSize()) }},
		}
		if strings.HasPrefix(v.Shape, "big:") {
			// formatting 64 KiB+ values is quadratic (repeated concatenation, minutes of CPU time for the
			// largest): the formatting steps are left to C17's thorough tier for these base values
			steps = []step{steps[0], steps[1], steps[3], steps[4], steps[6], steps[7]}
		}
		first := map[string]string{}
		filled := false
		for i, st := range steps {
			var r string
			msg, pan := bx.Guard(func() { r = st.run() })
			c.T(1)
			rp := func(exp, obs string) bx.Replay {
				return bx.Replay{Entry: "purity", Value: valueString(v), ValueGob: valueGob(v), Ops: fmt.Sprintf("step %d: %s", i, st.name), Expected: exp, Observed: obs}
			}
			if pan {
				return // totality is C17's / C02's matter
			}
			_ = msg
			now := ref.DumpCap(p)
			if now != snap {
				if xr && st.name == "Marshal" && !filled {
					snap, filled = now, true // documented: the first Marshal fills XR block headers
					first = map[string]string{}
				} else {
					c.Report(keyJoin("C18/purity", v.Type, st.name, "packet-modified"), st.name+" modifies the packet (or memory past the length of one of its slices)", rp(snap, now))
					return
				}
			}
			if prev, ok := first[st.name]; ok && prev != r {
				c.Report(keyJoin("C18/purity", v.Type, st.name, "result-changes"), "repeating "+st.name+" returns a different result", rp(prev, r))
				return
			}
			first[st.name] = r
		}
		// decoding the value's own encoding (inside an arena with a sentinel tail) must leave
		// every octet of the buffer, and the octets after it, as they were
		if wire, err, pan := safeMarshal(p); err == nil && pan == "" && len(wire) > 0 {
			arena := make([]byte, len(wire)+8)
			copy(arena, wire)
			for i := len(wire); i < len(arena); i++ {
				arena[i] = 0xEE
			}
			keep := append([]byte{}, arena...)
			in := arena[:len(wire):len(arena)]
			if e := EntryByName("own:" + v.Type); e != nil {
				_, _ = bx.Guard(func() { _, _ = e.Fn(in) })
				c.T(1)
				if !bytes.Equal(arena, keep) {
					c.Report(keyJoin("C18/purity", v.Type, "Unmarshal", "input-buffer-modified"), v.Type+".Unmarshal modifies its input buffer", bx.Replay{Entry: e.Name, InputHex: bx.Hex(wire), Value: valueString(v), Expected: bx.Short(keep), Observed: bx.Short(arena)})
					return
				}
			}
			_, _ = bx.Guard(func() { _, _ = rtcp.Unmarshal(in) })
			c.T(1)
			if !bytes.Equal(arena, keep) {
				c.Report(keyJoin("C18/purity", v.Type, "dgram", "input-buffer-modified"), "rtcp.Unmarshal modifies its input buffer", bx.Replay{Entry: "dgram", InputHex: bx.Hex(wire), Value: valueString(v), Expected: bx.Short(keep), Observed: bx.Short(arena)})
				return
			}
		}
		c.NT()
	}
	forD(c, one)
	// values whose fields exceed their wire width (outside D, inside "all packet values"): whatever
	// Marshal answers, it must not repair its argument in place
	for _, b := range ref.Builders(c.Thorough()) {
		for mode := 0; mode < 2; mode++ {
			if !c.Mine() {
				continue
			}
			p := b.Make()
			if ref.OverWidth(p, mode) == 0 {
				continue
			}
			one(ref.V{P: p, Type: b.Type, Shape: b.Shape, Dev: fmt.Sprintf(" over-width-mode-%d", mode)})
		}
	}
	// TWCC with deltas that are not multiples of 250us (a documented quantisation, still well-formed)
	for _, b := range ref.Builders(c.Thorough()) {
		if b.Type != "TransportLayerCC" {
			continue
		}
		for _, off := range []int64{1, 7, 249, -1, -249} {
			if !c.Mine() {
				continue
			}
			p := b.Make().(*rtcp.TransportLayerCC)
			ok := len(p.RecvDeltas) > 0
			for _, d := range p.RecvDeltas {
				nd := d.Delta + off
				// stay inside the size class
				if d.Type == rtcp.TypeTCCPacketReceivedSmallDelta && (nd < 0 || nd/250 > 255) || nd/250 > 32767 || nd/250 < -32768 {
					continue
				}
				d.Delta = nd
			}
			if ok {
				one(ref.V{P: p, Type: b.Type, Shape: b.Shape, Dev: fmt.Sprintf(" deltas%+d", off)})
			}
		}
	}
}

// c18SubEncoders: the exported sub-structure encoders are operations too: a result handed to the
// caller must not change when another value is encoded afterwards, and repeating a call returns
// identical bytes.
func c18SubEncoders(c *bx.Ctx) {
	c.Space("sub-structure-encoders")
	type enc struct {
		name string
		mk   func(k int) func() ([]byte, error)
	}
	encs := []enc{
		{"Header", func(k int) func() ([]byte, error) {
			h := rtcp.Header{Padding: k%2 == 1, Count: uint8(3 + 7*k), Type: rtcp.PacketType(200 + k), Length: uint16(0x1234 + 0x1111*k)}
			return h.Marshal
		}},
		{"ReceptionReport", func(k int) func() ([]byte, error) {
			r := rtcp.ReceptionReport{SSRC: 0x80000001 + uint32(k)<<8, FractionLost: uint8(0x11 * (k + 1)), TotalLost: uint32(0x10203 * (k + 1)), LastSequenceNumber: uint32(k) + 7, Jitter: 9, LastSenderReport: 10, Delay: 11}
			return r.Marshal
		}},
		{"SourceDescriptionChunk", func(k int) func() ([]byte, error) {
			ch := rtcp.SourceDescriptionChunk{Source: 0x90000000 + uint32(k), Items: []rtcp.SourceDescriptionItem{{Type: rtcp.SDESCNAME, Text: fmt.Sprintf("user-%d@example.org", k)}, {Type: rtcp.SDESTool, Text: fmt.Sprintf("tool/%d", k*k)}}}
			return ch.Marshal
		}},
		{"SourceDescriptionItem", func(k int) func() ([]byte, error) {
			it := rtcp.SourceDescriptionItem{Type: rtcp.SDESType(1 + k), Text: fmt.Sprintf("text-%d-%d", k, k*31)}
			return it.Marshal
		}},
		{"RunLengthChunk", func(k int) func() ([]byte, error) {
			r := rtcp.RunLengthChunk{Type: rtcp.TypeTCCRunLengthChunk, PacketStatusSymbol: uint16(k % 3), RunLength: uint16(100 + 1000*k)}
			return r.Marshal
		}},
		{"StatusVectorChunk", func(k int) func() ([]byte, error) {
			syms := []uint16{1, 0, 1, 1, 0, 0, 1}
			if k%2 == 1 {
				syms = []uint16{2, 1, 0, 0, 2, 1, 1}
			}
			v := rtcp.StatusVectorChunk{Type: rtcp.TypeTCCStatusVectorChunk, SymbolSize: rtcp.TypeTCCSymbolSizeTwoBit, SymbolList: syms}
			return v.Marshal
		}},
		{"RecvDelta", func(k int) func() ([]byte, error) {
			d := rtcp.RecvDelta{Type: rtcp.TypeTCCPacketReceivedLargeDelta, Delta: int64(250 * (1000 + 77*k))}
			return d.Marshal
		}},
	}
	for _, e := range encs {
		if !c.Mine() {
			continue
		}
		a, b := e.mk(0), e.mk(1)
		for depth := 1; depth <= 3; depth++ {
			// a ; (b ; a)^depth : every earlier result must stay what it was
			first, err := a()
			c.T(1)
			if err != nil {
				break
			}
			keep := append([]byte{}, first...)
			ok := true
			for i := 0; i < depth && ok; i++ {
				rb, _ := b()
				keepB := append([]byte{}, rb...)
				ra, _ := a()
				c.T(2)
				switch {
				case !bytes.Equal(first, keep):
					c.Report(keyJoin("C18/sub-encoder", e.name, "earlier-result-overwritten"), e.name+".Marshal: a result returned earlier changes when another value is encoded", bx.Replay{Entry: e.name + ".Marshal", Ops: "a; b; a", Expected: fmt.Sprintf("%x", keep), Observed: fmt.Sprintf("%x", first)})
					ok = false
				case !bytes.Equal(ra, keep):
					c.Report(keyJoin("C18/sub-encoder", e.name, "result-depends-on-history"), e.name+".Marshal returns different bytes after another value was encoded", bx.Replay{Entry: e.name + ".Marshal", Ops: "a; b; a", Expected: fmt.Sprintf("%x", keep), Observed: fmt.Sprintf("%x", ra)})
					ok = false
				case !bytes.Equal(rb, keepB):
					c.Report(keyJoin("C18/sub-encoder", e.name, "earlier-result-overwritten"), e.name+".Marshal: the previous result was overwritten", bx.Replay{Entry: e.name + ".Marshal", Ops: "b; a", Expected: fmt.Sprintf("%x", keepB), Observed: fmt.Sprintf("%x", rb)})
					ok = false
				}
			}
			if ok {
				c.NT()
			}
		}
	}
}

// c18ColdAudit runs before anything else has called into package rtcp (a worker is a fresh process):
// every kind of operation once per type, with the package-level variables digested at every statement.
// A package variable that changes while the code is outside every sync protection (Once body, held
// write lock) is unsynchronised mutable shared state — typically a lazily filled cache or table, which
// later runs, once warm, no longer write to and therefore cannot show.
func c18ColdAudit(c *bx.Ctx) {
	c.Space("cold-start-audit")
	if !c.Mine() {
		return
	}
	if !InstrBuild {
		c.Note("cold-start audit needs the instrumented build: skipped")
		return
	}
	last := globalsSnapshot()
	prevDepth := 0
	busy := false
	cur := ""
	found := false
	stmts := 0
	rawHookSet(func() {
		if busy || found {
			return
		}
		busy = true
		stmts++
		d := globalsSnapshot()
		if d != last {
			if prevDepth == 0 {
				found = true
				c.Report(keyJoin("C18/cold-start", "package-variable-written-unsynchronised"), "a package-level variable is written outside every sync protection during the first "+cur+" of the process (lazily filled shared state)",
					bx.Replay{Entry: "cold-start-audit", Ops: cur, Expected: firstDiffLine(last, d, true), Observed: firstDiffLine(last, d, false)})
			}
			last = d
		}
		prevDepth = syncDepthGet()
		busy = false
	})
	defer rawHookSet(nil)
	for _, o := range c18Objects() {
		w, _, _ := safeMarshal(o.alt())
		for _, op := range c18Ops {
			if found {
				return
			}
			if op.has == nil || op.has(o.mk()) {
				cur = op.name + " on " + o.typ
				_, _ = bx.Guard(func() { op.run(o.mk(), o.typ, append([]byte{}, w...)) })
				c.T(1)
			}
		}
	}
	c.Count("cold-start-statements-audited", int64(stmts))
	if !found {
		c.NT()
	}
}

func firstDiffLine(a, b string, first bool) string {
	la, lb := strings.Split(a, "\n"), strings.Split(b, "\n")
	for i := 0; i < len(la) && i < len(lb); i++ {
		if la[i] != lb[i] {
			if first {
				return bx.ShortStr(la[i])
			}
			return bx.ShortStr(lb[i])
		}
	}
	return "(lengths differ)"
}

// c18CrossValue: histories over DIFFERENT values of one type, and results against each other.
//   - independence: Marshal / String / decode of a value B give the same answer before and after the same
//     operations ran on another value A (a scratch buffer or cache that leaks content between values);
//   - earlier results: what DestinationSSRC and Marshal returned for a receiver stays intact when the
//     receiver is decoded into again (whatever decoding into a used receiver means otherwise);
//   - disjointness: two decodes of equal bytes from different buffers, two Marshal results, and the result
//     of the package-level Marshal and its argument share no memory (interned or pooled sub-objects).
func c18CrossValue(c *bx.Ctx) {
	c.Space("cross-value-histories")
	byType := map[string][]ref.Builder{}
	var types []string
	for _, b := range ref.Builders(c.Thorough()) {
		if strings.HasPrefix(b.Shape, "big:") {
			continue
		}
		if _, ok := byType[b.Type]; !ok {
			types = append(types, b.Type)
		}
		byType[b.Type] = append(byType[b.Type], b)
	}
	maxShapes := 24
	if c.Thorough() {
		maxShapes = 48
	}
	for _, typ := range types {
		bs := byType[typ]
		if len(bs) > maxShapes { // spread over the list (sizes grow along it)
			var pick []ref.Builder
			for i := 0; i < maxShapes; i++ {
				pick = append(pick, bs[i*len(bs)/maxShapes])
			}
			bs = pick
		}
		e := EntryByName("own:" + typ)
		enc := make([][]byte, len(bs))
		encP := make([][]byte, len(bs)) // the same shapes with other numbers in every 32-bit field
		for i, b := range bs {
			w, err, pan := safeMarshal(b.Make())
			if err == nil && pan == "" {
				enc[i] = append([]byte{}, w...)
			}
			pp := b.Make()
			ref.Perturb(pp)
			if w, err, pan := safeMarshal(pp); err == nil && pan == "" {
				encP[i] = append([]byte{}, w...)
			}
		}
		observe := func(p rtcp.Packet, wire []byte) string {
			var out string
			_, _ = bx.Guard(func() {
				m, err := p.Marshal()
				l, lerr := rtcp.Marshal([]rtcp.Packet{p})
				out = fmt.Sprintf("%x|%v|%x|%v|%s|%x", m, err, l, lerr, fmt.Sprintf("%+v", p), p.DestinationSSRC())
				if e != nil && wire != nil {
					q, derr := e.Fn(append([]byte{}, wire...))
					out += fmt.Sprintf("|%s|%v", ref.Dump(q), derr)
				}
			})
			return out
		}
		// cache pressure: many distinct values of one shape go through the codec, then the first ones again;
		// their answers must be those of the first time (a bounded cache, an eviction slip, interning)
		if c.MineBlock(0) && len(bs) > 0 {
			t0 := time.Now()
			shape := bs[0]
			for i, b := range bs { // the largest of the picked shapes that still encodes to at most 2 KiB
				if enc[i] != nil && len(enc[i]) <= 2048 && len(enc[i]) >= len(enc[0]) {
					shape = b
				}
			}
			nVar := 1500
			if c.Thorough() {
				nVar = 5000
			}
			type first struct{ wire, dump, str string }
			var firsts []first
			one := func(n int) (first, bool) {
				p := shape.Make()
				ref.Reseed(p, n)
				var f first
				ok := false
				_, _ = bx.Guard(func() {
					w, err := p.Marshal()
					if err != nil {
						return
					}
					f.wire = fmt.Sprintf("%x", w)
					f.str = fmt.Sprintf("%+v", p)
					if e != nil {
						q, derr := e.Fn(append([]byte{}, w...))
						f.dump = fmt.Sprintf("%s|%v", ref.Dump(q), derr)
					}
					ok = true
				})
				return f, ok
			}
			for n := 0; n < nVar; n++ {
				f, ok := one(n)
				c.T(3)
				if n < 64 && ok {
					firsts = append(firsts, f)
				}
			}
			for n := 0; n < len(firsts); n++ {
				f, ok := one(n)
				if ok && f != firsts[n] {
					c.Report(keyJoin("C18/cross-value", typ, "answer-changes-after-many-other-values"), fmt.Sprintf("Marshal / String / decode of a value answer differently after %d other values of the type went through the codec", nVar),
						bx.Replay{Entry: "cache-pressure", Value: typ + "{" + shape.Shape + "}", Ops: fmt.Sprintf("variant %d, then variants up to %d, then variant %d again", n, nVar-1, n), Expected: bx.ShortStr(firsts[n].dump + " " + firsts[n].wire), Observed: bx.ShortStr(f.dump + " " + f.wire)})
					break
				}
			}
			c.Add(int64(nVar))
			_ = t0
			c.Note(fmt.Sprintf("cache-pressure %s{%s}: %d variants", typ, shape.Shape, nVar))
		}
		for bi, B := range bs {
			if !c.MineBlock(0) {
				continue
			}
			if c.Expired() {
				return
			}
			pB := B.Make()
			rp := func(ops, exp, obs string) bx.Replay {
				return bx.Replay{Entry: "cross-value", Value: typ + "{" + B.Shape + "}", Ops: ops, Expected: bx.ShortStr(exp), Observed: bx.ShortStr(obs)}
			}
			// disjointness of results
			if e != nil && enc[bi] != nil {
				in1, in2 := append([]byte{}, enc[bi]...), append([]byte{}, enc[bi]...)
				q1, err1 := e.Fn(in1)
				q2, err2 := e.Fn(in2)
				c.T(2)
				if err1 == nil && err2 == nil {
					if sh := ref.SharedMemory(q1, q2, in1, in2); sh != "" {
						c.Report(keyJoin("C18/cross-value", typ, "decoded-values-share-memory"), "two packets decoded from different buffers share memory: "+sh, rp("decode twice from two buffers", "disjoint values", sh))
					}
					// byte slices of a decoded packet may alias the input (documented); its strings are
					// immutable values and must not change when the caller reuses the buffer
					if qp, ok := q1.(rtcp.Packet); ok {
						before := ref.StringLeaves(qp)
						for i := range in1 {
							in1[i] = 0xA5
						}
						after := ref.StringLeaves(qp)
						if fmt.Sprint(before) != fmt.Sprint(after) {
							c.Report(keyJoin("C18/cross-value", typ, "decoded-string-changes-with-input-buffer"), "a string of a decoded packet changes when the input buffer is overwritten afterwards (a string built over the caller's memory)", rp("decode, then overwrite the input buffer", fmt.Sprint(before), fmt.Sprint(after)))
						}
					}
				}
			}
			{
				var m1, m2, l1 []byte
				_, _ = bx.Guard(func() { m1, _ = pB.Marshal(); m2, _ = pB.Marshal(); l1, _ = rtcp.Marshal([]rtcp.Packet{pB}) })
				c.T(3)
				if _, raw := pB.(*rtcp.RawPacket); !raw && len(m1) > 0 && len(m2) > 0 {
					if sh := ref.SharedMemory(m1, m2); sh != "" {
						c.Report(keyJoin("C18/cross-value", typ, "marshal-results-share-memory"), "two Marshal results share memory", rp("Marshal twice", "disjoint results", sh))
					}
				}
				if len(l1) > 0 {
					if sh := ref.SharedMemory(l1, pB); sh != "" {
						c.Report(keyJoin("C18/cross-value", typ, "marshal-list-result-aliases-packet"), "the result of rtcp.Marshal([p]) shares memory with p", rp("rtcp.Marshal of a one-element list", "a copy", sh))
					}
				}
			}
			for ai, A := range bs {
				if ai == bi {
					continue
				}
				c.Add(1)
				pA := A.Make()
				x := observe(pB, enc[bi])
				_ = observe(pA, enc[ai])
				y := observe(pB, enc[bi])
				c.T(3)
				if x != y {
					c.Report(keyJoin("C18/cross-value", typ, "result-depends-on-other-value"), "Marshal / String / DestinationSSRC / decode of one value answer differently after the same operations ran on another value of the type",
						rp("observe(B); observe(A = {"+A.Shape+"}); observe(B)", x, y))
					break
				}
				// earlier results of a receiver that is decoded into again
				if e != nil && e.New != nil && enc[ai] != nil && encP[bi] != nil {
					r := e.New()
					var d []uint32
					var m []byte
					ok := false
					_, _ = bx.Guard(func() {
						if r.Unmarshal(append([]byte{}, enc[ai]...)) == nil {
							d = r.DestinationSSRC()
							m, _ = r.Marshal()
							ok = true
						}
					})
					if ok {
						dk, mk := append([]uint32{}, d...), append([]byte{}, m...)
						_, _ = bx.Guard(func() { _ = r.Unmarshal(append([]byte{}, encP[bi]...)) })
						c.T(2)
						if !u32eq(d, dk) || !bytes.Equal(m, mk) {
							c.Report(keyJoin("C18/cross-value", typ, "earlier-result-overwritten-by-decoding-again"), "a slice returned earlier by DestinationSSRC / Marshal changes when the same receiver is decoded into again",
								rp("Unmarshal(A = {"+A.Shape+"}); keep DestinationSSRC and Marshal results; Unmarshal(B)", fmt.Sprintf("%x %x", dk, mk), fmt.Sprintf("%x %x", d, m)))
							break
						}
					}
				}
				c.NT()
			}
		}
	}
}

func runC18(c *bx.Ctx) {
	c18ColdAudit(c)
	c18CrossValue(c)
	c18SubEncoders(c)
	c18Purity(c)
	c18Histories(c)
	c18Schedules(c)
	c18RacePass(c)
}
