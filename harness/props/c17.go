package props

import (
	"fmt"
	"strings"

	"github.com/pion/rtcp"

	"verif/bx"
	"verif/ref"
)

// C17 — String() is total on every decoded or constructible packet.

func init() {
	register(&Prop{ID: "C17", Run: runC17, Instr: true, DeathIsViolation: true,
		Rule: "String(), %v and %+v on: every value of D; every packet returned by rtcp.Unmarshal for an accepted input of the S2/S3/S4/splice byte spaces; all 256 values of each enum-like type and all 2^16 XR chunk values; REMB packets decoded from all 64 exponents x boundary mantissas; compounds of <=3 members over a 24-packet alphabet. Non-trivial = the formatter returned a string (panic and step-budget oracles)",
		Assumptions: []string{
			"step budget 1e8 statements of package rtcp per formatting call (instrumented build) decides non-termination",
		},
		BoundsQuick:    "D quick; byte spaces as C09 quick restricted to inputs of <= 4096 octets; enums complete; compounds of <= 3",
		BoundsThorough: "D thorough; byte spaces as C09 thorough",
	})
}

func c17Format(c *bx.Ctx, what string, v interface{}, replay func() bx.Replay) bool {
	ok := true
	for _, mode := range []string{"String", "%v", "%+v"} {
		stepsSetBudget(100_000_000)
		var s string
		msg, pan := bx.Guard(func() {
			switch mode {
			case "String":
				if st, is := v.(fmt.Stringer); is {
					s = st.String()
				} else {
					s = fmt.Sprint(v)
				}
			case "%v":
				s = fmt.Sprintf("%v", v)
			default:
				s = fmt.Sprintf("%+v", v)
			}
		})
		c.T(1)
		if pan {
			rp := replay()
			rp.Entry = what + " " + mode
			rp.Expected = "a string"
			rp.Observed = "panic: " + msg
			site := bx.PanicSite(msg)
			if strings.Contains(msg, "step budget") {
				site = "step-budget"
			}
			c.Report(keyJoin("C17", what, site), "formatting a "+what+" with "+mode+" panics: "+msg, rp)
			ok = false
			continue
		}
		// fmt recovers panics of String methods and prints them in-line
		if strings.Contains(s, "%!v(PANIC=") || strings.Contains(s, "(PANIC=") {
			rp := replay()
			rp.Entry = what + " " + mode
			rp.Expected = "a string"
			rp.Observed = s
			c.Report(keyJoin("C17", what, "panic-inside-fmt"), "a String method panics inside fmt when formatting a "+what, rp)
			ok = false
		}
	}
	return ok
}

func runC17(c *bx.Ctx) {
	// every value of D
	c.Space("D")
	forD(c, func(v ref.V) {
		if !c.Thorough() && strings.HasPrefix(v.Shape, "big:") {
			// formatting builds its string by repeated concatenation (quadratic): the 64 KiB+ base
			// values are formatted in the thorough tier only
			c.Count("skipped-big-shape-in-quick", 1)
			return
		}
		if c17Format(c, v.Type, v.P, func() bx.Replay { return bx.Replay{Value: valueString(v)} }) {
			c.NT()
		}
		c.Sample(func() interface{} {
			s := fmt.Sprintf("%v", v.P)
			if len(s) > 120 {
				s = s[:120] + "…"
			}
			return map[string]string{"value": v.String(), "formatted": s}
		})
	})
	// every packet in the image of rtcp.Unmarshal over the byte spaces
	x := &c09{c: c, judge: false}
	x.onPacket = func(in []byte, ps []rtcp.Packet) {
		if len(in) > 4096 {
			// formatting is quadratic in the list lengths (string concatenation); datagrams beyond
			// 4096 octets are left out of the formatting sweep (bound stated in the evidence)
			c.Count("skipped-input-over-4096-octets", 1)
			return
		}
		good := true
		for _, p := range ps {
			if !c17Format(c, TypeName(p), p, func() bx.Replay { return bx.Replay{InputHex: bx.Hex(in), Ops: "rtcp.Unmarshal then format " + TypeName(p)} }) {
				good = false
			}
		}
		if len(ps) > 1 {
			cp := rtcp.CompoundPacket(ps)
			if !c17Format(c, "CompoundPacket", cp, func() bx.Replay { return bx.Replay{InputHex: bx.Hex(in), Ops: "rtcp.Unmarshal then format as CompoundPacket"} }) {
				good = false
			}
		}
		if good {
			c.NT()
		}
	}
	genS2(c, x)
	genS3(c, x)
	genS4(c, x)
	genSplices(c, x)
	// enum-like helper types
	c.Space("enums")
	for v := 0; v < 256; v++ {
		if !c.Mine() {
			continue
		}
		rp := func() bx.Replay { return bx.Replay{Value: fmt.Sprint(v)} }
		ok := c17Format(c, "PacketType", rtcp.PacketType(v), rp)
		ok = c17Format(c, "SDESType", rtcp.SDESType(v), rp) && ok
		ok = c17Format(c, "BlockTypeType", rtcp.BlockTypeType(v), rp) && ok
		ok = c17Format(c, "TTLorHopLimitType", rtcp.TTLorHopLimitType(v), rp) && ok
		ok = c17Format(c, "ChunkType", rtcp.ChunkType(v), rp) && ok
		ok = c17Format(c, "ECN", rtcp.ECN(v), rp) && ok
		ok = c17Format(c, "TypeSpecificField", rtcp.TypeSpecificField(v), rp) && ok
		ok = c17Format(c, "SourceDescriptionItem", rtcp.SourceDescriptionItem{Type: rtcp.SDESType(v), Text: "t"}, rp) && ok
		ok = c17Format(c, "Header", rtcp.Header{Type: rtcp.PacketType(v), Count: uint8(v)}, rp) && ok
		if ok {
			c.NT()
		}
	}
	c.Space("xr-chunks")
	for hi := 0; hi < 256; hi++ {
		if !c.MineBlock(256) {
			continue
		}
		for lo := 0; lo < 256; lo++ {
			w := hi<<8 | lo
			if c17Format(c, "Chunk", rtcp.Chunk(w), func() bx.Replay { return bx.Replay{Value: fmt.Sprintf("0x%04x", w)} }) {
				c.NT()
			}
		}
	}
	// RawPacket values holding arbitrary (also malformed) bytes: Header() and String() are total
	c.Space("raw-packet-accessors")
	for a := 0; a < 256; a++ {
		if !c.MineBlock(0) {
			continue
		}
		for _, tail := range [][]byte{nil, {0}, {0, 1}, {200, 0, 1}, {200, 0, 1, 9, 9, 9, 9}, {0xff, 0xff, 0xff}} {
			b := append([]byte{byte(a)}, tail...)
			if a == 0 && tail == nil {
				b = nil
			}
			c.Add(1)
			r := rtcp.RawPacket(b)
			msg, pan := bx.Guard(func() {
				_ = r.Header()
				_ = r.String()
				_ = r.MarshalSize()
				_ = (&r).DestinationSSRC()
			})
			c.T(4)
			if pan {
				c.Report("C17/RawPacket/accessor-panics", "Header / String / MarshalSize / DestinationSSRC of a RawPacket panic: "+msg, bx.Replay{Entry: "RawPacket accessors", InputHex: bx.Hex(b), Expected: "results", Observed: "panic: " + msg})
				continue
			}
			c.NT()
		}
	}
	// REMB decoded from every exponent x boundary mantissas
	c.Space("remb-wire")
	var ms []uint32
	for k := uint(0); k < 18; k++ {
		ms = append(ms, 1<<k, 1<<k-1, 1<<k+1)
	}
	ms = append(ms, 0, 0x3ffff, 0x3fffe, 999, 1000, 1001)
	for e := 0; e < 64; e++ {
		for _, m := range ms {
			if !c.Mine() {
				continue
			}
			raw := rembWire(uint8(e), m&0x3ffff, 2)
			var p rtcp.ReceiverEstimatedMaximumBitrate
			if err := p.Unmarshal(raw); err != nil {
				continue
			}
			c.T(1)
			if c17Format(c, "ReceiverEstimatedMaximumBitrate", &p, func() bx.Replay { return bx.Replay{InputHex: bx.Hex(raw)} }) {
				c.NT()
			}
		}
	}
	// compounds mixing all types
	c.Space("compounds")
	alpha := listAlphabet()
	for i := range alpha {
		for j := range alpha {
			if !c.MineBlock(0) {
				continue
			}
			if c.Expired() {
				return
			}
			for k := -1; k < len(alpha); k++ {
				cp := rtcp.CompoundPacket{alpha[i](), alpha[j]()}
				if k >= 0 {
					cp = append(cp, alpha[k]())
				}
				c.Add(1)
				desc := fmt.Sprint(i, j, k)
				ok := c17Format(c, "CompoundPacket", cp, func() bx.Replay { return bx.Replay{Ops: "compound of list-alphabet members " + desc} })
				ok = c17Format(c, "CompoundPacket", &cp, func() bx.Replay { return bx.Replay{Ops: "compound (pointer) of list-alphabet members " + desc} }) && ok
				if ok {
					c.NT()
				}
			}
		}
	}
	if c.Mine() {
		var empty rtcp.CompoundPacket
		c17Format(c, "CompoundPacket", empty, func() bx.Replay { return bx.Replay{Ops: "empty compound"} })
	}
}
