package props

import (
	"bytes"
	"fmt"
	"reflect"

	"github.com/pion/rtcp"

	"verif/bx"
	"verif/ref"
)

// C15 — XR report blocks are self-delimiting; unknown blocks survive verbatim.

func init() {
	register(&Prop{ID: "C15", Run: runC15,
		Rule: "graph space: every sequence of 0..k report blocks over an alphabet of ~45 blocks (7 defined kinds x list lengths x flag/T/ToH combinations, unknown types 0/8/255 x content sizes); a transition appends one block. In every state the Marshal bytes are walked by an independent RFC 3611 block walker and compared with the reference encoding, decoded by both decoders, compared block by block with the singleton decode (independence of neighbours) and re-marshalled. Non-trivial = sequences of >= 2 blocks",
		Assumptions: []string{
			"field values are covered by the 1-deviation sweep of single-block packets in C02/C03; here values are tagged and distinct per position",
			"RLE blocks carry an even number of chunks (RFC 3611 alignment); odd counts are a C05 finding",
		},
		BoundsQuick:    "all sequences of <= 3 blocks",
		BoundsThorough: "all sequences of <= 4 blocks",
	})
}

func xrKind(b rtcp.ReportBlock) (bt int, name string) {
	switch x := b.(type) {
	case *rtcp.LossRLEReportBlock:
		return 1, "LossRLE"
	case *rtcp.DuplicateRLEReportBlock:
		return 2, "DuplicateRLE"
	case *rtcp.PacketReceiptTimesReportBlock:
		return 3, "PacketReceiptTimes"
	case *rtcp.ReceiverReferenceTimeReportBlock:
		return 4, "ReceiverReferenceTime"
	case *rtcp.DLRRReportBlock:
		return 5, "DLRR"
	case *rtcp.StatisticsSummaryReportBlock:
		return 6, "StatisticsSummary"
	case *rtcp.VoIPMetricsReportBlock:
		return 7, "VoIPMetrics"
	case *rtcp.UnknownReportBlock:
		return int(x.XRHeader.BlockType), "Unknown"
	}
	return -1, "?"
}

// nextSameKind returns the next alphabet element (cyclically) whose block has the same Go type.
func nextSameKind(alpha []ref.XRBlock, i int) int {
	want := fmt.Sprintf("%T", alpha[i].Make(ref.NewTagger()))
	for d := 1; d <= len(alpha); d++ {
		j := (i + d) % len(alpha)
		if fmt.Sprintf("%T", alpha[j].Make(ref.NewTagger())) == want {
			return j
		}
	}
	return i
}

// copyXRHeader copies the (derived) XRHeader of src into dst.
func copyXRHeader(dst, src rtcp.ReportBlock) {
	d := reflect.ValueOf(dst).Elem().FieldByName("XRHeader")
	s := reflect.ValueOf(src).Elem().FieldByName("XRHeader")
	if d.IsValid() && s.IsValid() && d.CanSet() {
		d.Set(s)
	}
}

func runC15(c *bx.Ctx) {
	alpha := ref.XRBlockAlphabet()
	c.Note(fmt.Sprintf("block alphabet: %d", len(alpha)))
	maxLen := 3
	if c.Thorough() {
		maxLen = 4
	}
	// singleton decodes, by alphabet index and tag offset, are computed on demand
	idx := make([]int, 0, maxLen)
	check := func() {
		t := ref.NewTagger()
		p := &rtcp.ExtendedReport{SenderSSRC: 0x902f9e2e}
		names := ""
		for _, i := range idx {
			p.Reports = append(p.Reports, alpha[i].Make(t))
			names += alpha[i].Name + " | "
		}
		orig := ref.Clone(p).(*rtcp.ExtendedReport)
		rp := func(entry, exp, obs string) bx.Replay { return bx.Replay{Entry: entry, Ops: names, Expected: exp, Observed: obs} }
		b, err, pan := safeMarshal(p)
		c.T(1)
		if pan != "" || err != nil {
			c.Report("C15/marshal-failed", "an extended report of well-formed blocks does not marshal", rp("Marshal", "bytes", fmt.Sprint(err, pan)))
			return
		}
		b = append([]byte{}, b...)
		w, rerr := ref.Encode(orig, ref.Opt{})
		if rerr != nil {
			c.Report("C15/harness/reference-rejects", "HARNESS: reference encoder rejects the block sequence", rp("ref.Encode", "bytes", rerr.Error()))
			return
		}
		_, blocks, werr := ref.WalkXR(b)
		if werr != nil {
			c.Report("C15/not-self-delimiting", "the marshalled report cannot be walked by its block length fields: "+werr.Error(), rp("Marshal", bx.Short(w.B), bx.Short(b)))
			return
		}
		if len(blocks) != len(idx) {
			c.Report("C15/block-count", "walking the marshalled report finds a different number of blocks", rp("Marshal", fmt.Sprint(len(idx)), fmt.Sprint(len(blocks))))
			return
		}
		_, wblocks, _ := ref.WalkXR(w.B)
		for i, blk := range blocks {
			bt, kind := xrKind(orig.Reports[i])
			if int(blk.BT) != bt {
				c.Report(keyJoin("C15/block-type", kind), "a marshalled block does not carry its registered block type", rp("Marshal", fmt.Sprint(bt), fmt.Sprint(blk.BT)))
				return
			}
			if i < len(wblocks) {
				if blk.Words != wblocks[i].Words {
					c.Report(keyJoin("C15/block-length", kind), "block length is not the block size in words minus one", rp("Marshal", fmt.Sprint(wblocks[i].Words), fmt.Sprint(blk.Words)))
					return
				}
				if blk.TS != wblocks[i].TS {
					c.Report(keyJoin("C15/type-specific", kind), "type-specific bits (T / L,D,J,ToH) are not in their RFC 3611 positions", rp("Marshal", fmt.Sprintf("%02x", wblocks[i].TS), fmt.Sprintf("%02x", blk.TS)))
					return
				}
				if !bytes.Equal(blk.Body, wblocks[i].Body) {
					c.Report(keyJoin("C15/block-body", kind), "block content differs from the RFC 3611 layout", rp("Marshal", bx.Short(wblocks[i].Body), bx.Short(blk.Body)))
					return
				}
			}
		}
		if !bytes.Equal(b, w.B) {
			c.Report("C15/bytes", "marshalled report differs from the reference encoding", rp("Marshal", bx.Short(w.B), bx.Short(b)))
			return
		}
		for _, entry := range []string{"own", "dgram"} {
			var q *rtcp.ExtendedReport
			if entry == "own" {
				qq, err, pan := safeOwn("ExtendedReport", append([]byte{}, b...))
				c.T(1)
				if pan != "" || err != nil {
					c.Report("C15/own-rejected", "the marshalled report is rejected by ExtendedReport.Unmarshal", rp("Marshal+own", "accepted", fmt.Sprint(err, pan)))
					return
				}
				q = qq.(*rtcp.ExtendedReport)
			} else {
				ps, err, pan := safeDgram(append([]byte{}, b...))
				c.T(1)
				if pan != "" || err != nil || len(ps) != 1 {
					c.Report("C15/dgram-rejected", "the marshalled report is rejected by rtcp.Unmarshal", rp("Marshal+dgram", "accepted", fmt.Sprint(err, pan, len(ps))))
					return
				}
				var ok bool
				if q, ok = ps[0].(*rtcp.ExtendedReport); !ok {
					c.Report("C15/dgram-type", "the marshalled report is not returned as ExtendedReport", rp("Marshal+dgram", "ExtendedReport", TypeName(ps[0])))
					return
				}
			}
			if len(q.Reports) != len(orig.Reports) {
				c.Report(keyJoin("C15", entry, "decoded-count"), "decoding returns a different number of blocks", rp("Marshal+"+entry, fmt.Sprint(len(orig.Reports)), fmt.Sprint(len(q.Reports))))
				return
			}
			for i := range q.Reports {
				_, k1 := xrKind(orig.Reports[i])
				if fmt.Sprintf("%T", q.Reports[i]) != fmt.Sprintf("%T", orig.Reports[i]) {
					c.Report(keyJoin("C15", entry, "go-type", k1), "a block is not decoded to the Go type of its block type", rp("Marshal+"+entry, fmt.Sprintf("%T", orig.Reports[i]), fmt.Sprintf("%T", q.Reports[i])))
					return
				}
				if path, ok := ref.Equal(orig.Reports[i], q.Reports[i]); !ok {
					c.Report(keyJoin("C15", entry, "block-differs", k1, bx.NormPath(path)), "a decoded block differs from the original at "+path+" (neighbour dependence?)", rp("Marshal+"+entry, ref.Dump(orig.Reports[i]), ref.Dump(q.Reports[i])))
					return
				}
				// independence: the same block alone decodes to the same value
				single := &rtcp.ExtendedReport{SenderSSRC: 1, Reports: []rtcp.ReportBlock{ref.Clone(orig.Reports[i]).(rtcp.ReportBlock)}}
				sb, err, pan := safeMarshal(single)
				if pan == "" && err == nil {
					sq, err, pan := safeOwn("ExtendedReport", append([]byte{}, sb...))
					c.T(2)
					if pan == "" && err == nil {
						sx := sq.(*rtcp.ExtendedReport)
						if len(sx.Reports) != 1 || ref.Dump(sx.Reports[0]) != ref.Dump(q.Reports[i]) {
							c.Report(keyJoin("C15", entry, "not-independent", k1), "a block decodes differently inside a sequence than alone", rp("Marshal+"+entry, ref.Dump(sx.Reports), ref.Dump(q.Reports[i])))
							return
						}
					}
				}
				if u, ok := q.Reports[i].(*rtcp.UnknownReportBlock); ok {
					ou := orig.Reports[i].(*rtcp.UnknownReportBlock)
					if u.XRHeader.BlockType != ou.XRHeader.BlockType || u.XRHeader.TypeSpecific != ou.XRHeader.TypeSpecific || !bytes.Equal(u.Bytes, ou.Bytes) {
						c.Report(keyJoin("C15", entry, "unknown-block-altered"), "an unknown block does not keep its type, type-specific octet and content", rp("Marshal+"+entry, ref.Dump(ou), ref.Dump(u)))
						return
					}
				}
			}
			b2, err, pan := safeMarshal(q)
			c.T(1)
			if pan != "" || err != nil || !bytes.Equal(b2, b) {
				c.Report(keyJoin("C15", entry, "remarshal"), "re-encoding the decoded report does not reproduce the bytes", rp("Marshal+"+entry+"+Marshal", bx.Short(b), fmt.Sprint(bx.Short(b2), err, pan)))
				return
			}
		}
		// reuse: blocks of the same kinds but other values / flags / list lengths that carry the
		// header state left behind by the Marshal above must encode exactly like fresh ones
		t2 := ref.NewTagger()
		for k := 0; k < 7; k++ {
			t2.Skip()
		}
		p2 := &rtcp.ExtendedReport{SenderSSRC: 0x0badcafe}
		for pos, i := range idx {
			j := nextSameKind(alpha, i)
			nb := alpha[j].Make(t2)
			if _, unk := nb.(*rtcp.UnknownReportBlock); !unk {
				copyXRHeader(nb, p.Reports[pos])
			}
			p2.Reports = append(p2.Reports, nb)
		}
		clean := ref.Clone(p2).(*rtcp.ExtendedReport)
		w2, rerr := ref.Encode(clean, ref.Opt{})
		b3, err, pan := safeMarshal(p2)
		c.T(1)
		if rerr == nil && (pan != "" || err != nil || !bytes.Equal(b3, w2.B)) {
			c.Report("C15/stale-header-state", "blocks that carry header fields left by an earlier Marshal encode differently from fresh blocks", rp("Marshal after reuse", bx.Short(w2.B), fmt.Sprint(bx.Short(b3), err, pan)))
			return
		}
		if len(idx) >= 2 {
			c.NT()
		}
		c.Sample(func() interface{} { return map[string]interface{}{"blocks": names, "octets": len(b)} })
	}
	var rec func()
	rec = func() {
		check()
		c.Add(1)
		if len(idx) == maxLen {
			return
		}
		for i := range alpha {
			idx = append(idx, i)
			rec()
			idx = idx[:len(idx)-1]
		}
	}
	c.Space("block-sequences")
	if c.Mine() {
		idx = idx[:0]
		check()
	}
	for i := range alpha {
		if c.Mine() {
			idx = append(idx[:0], i)
			check()
		}
		for j := range alpha {
			if !c.MineBlock(0) {
				continue
			}
			if c.Expired() {
				return
			}
			idx = append(idx[:0], i, j)
			rec()
		}
	}
}
