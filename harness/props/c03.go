package props

import (
	"encoding/binary"
	"fmt"

	"github.com/pion/rtcp"

	"verif/bx"
	"verif/ref"
)

// C03 — Marshal emits exactly the RFC wire layout of each packet type.

func init() {
	register(&Prop{ID: "C03", Run: runC03,
		Rule: "every value of the well-formed domain D (as C02); Marshal output compared bit for bit with the independent reference encoder under a don't-care mask that frees only unspecified padding octets. Non-trivial = Marshal succeeded and all octets were compared",
		Assumptions: []string{
			"the reference encoder (harness/ref/encode.go) is written from the RFC layouts listed in DESIGN.md Appendix A and cross-checked against the externally captured vectors pinned in the repository's tests",
			"RFC 8888 num_reports: either reading (count, or count-1) is accepted if applied consistently; the reading is fixed from a two-metric-block probe at the start of the run",
			"walking-one alphabets expose shift/mask/byte-order errors of copied fields; full 2^32 domains of copied fields are not enumerated",
		},
		BoundsQuick:    "D quick, 1 field off base",
		BoundsThorough: "D thorough, 2 fields off base on small shapes",
	})
}

// ccfbReading probes which RFC 8888 num_reports reading the implementation follows.
func ccfbReading() (opt ref.Opt, ok bool, got uint16) {
	p := rtcp.CCFeedbackReport{ReportBlocks: []rtcp.CCFeedbackReportBlock{{MetricBlocks: []rtcp.CCFeedbackMetricBlock{{Received: true}, {Received: true}}}}}
	b, err, pan := safeMarshal(&p)
	if pan != "" || err != nil || len(b) < 16 {
		return ref.Opt{}, false, 0
	}
	f := binary.BigEndian.Uint16(b[14:])
	switch f {
	case 2:
		return ref.Opt{CCFBNumReportsIsCount: true}, true, f
	case 1:
		return ref.Opt{}, true, f
	}
	return ref.Opt{}, false, f
}

func region(off int) string {
	switch {
	case off == 0:
		return "octet0-version-padding-count"
	case off == 1:
		return "packet-type"
	case off < 4:
		return "length-field"
	}
	return "body"
}

func runC03(c *bx.Ctx) {
	opt, ok, got := ccfbReading()
	if !ok && c.Shard == 0 {
		c.Report("C03/CCFeedbackReport/num_reports/neither-reading", "num_reports of a two-metric-block report is neither 2 nor 1",
			bx.Replay{Entry: "CCFeedbackReport.Marshal", Value: "one block, two metric blocks", Expected: "num_reports 2 or 1", Observed: fmt.Sprint(got)})
	}
	c.Note(fmt.Sprintf("CCFB num_reports reading in force: count=%v (probe field=%d)", opt.CCFBNumReportsIsCount, got))
	c.Space("D")
	forD(c, func(v ref.V) {
		b, err, pan := safeMarshal(v.P)
		c.T(1)
		if pan != "" || err != nil {
			// a well-formed value that does not marshal is C02's finding; nothing to compare here
			c.Count("marshal-failed", 1)
			return
		}
		w, rerr := ref.Encode(v.P, opt)
		if rerr != nil {
			c.Report(keyJoin("C03", v.Type, "harness", "reference-rejects"), "HARNESS: reference encoder rejects a value of D: "+rerr.Error(),
				bx.Replay{Entry: "ref.Encode", Value: valueString(v), ValueGob: valueGob(v), Expected: "bytes", Observed: rerr.Error()})
			return
		}
		rp := bx.Replay{Entry: "Marshal", Value: valueString(v), ValueGob: valueGob(v), Expected: bx.Short(w.B), Observed: bx.Short(b)}
		bad := false
		if len(b) != len(w.B) {
			c.Report(keyJoin("C03", v.Type, "size", shapeClass(v.P)), fmt.Sprintf("Marshal output has %d octets, the RFC encoding has %d", len(b), len(w.B)), rp)
			bad = true
		}
		n := len(b)
		if len(w.B) < n {
			n = len(w.B)
		}
		seen := map[string]bool{}
		for i := 0; i < n; i++ {
			if b[i] != w.B[i] && !w.Free[i] {
				r := region(i)
				if v.Type == "CompoundPacket" {
					r = "member-bytes"
				}
				if !seen[r] {
					seen[r] = true
					c.Report(keyJoin("C03", v.Type, r, shapeClass(v.P)), fmt.Sprintf("Marshal output differs from the RFC encoding in the %s (first at octet %d)", r, i), rp)
					bad = true
				}
			}
		}
		if !bad {
			c.NT()
		}
		c.Sample(func() interface{} { return map[string]string{"value": v.String(), "wire": bx.Short(b), "reference": bx.Short(w.B)} })
	})
}
