package props

import (
	"bytes"
	"fmt"

	"github.com/pion/rtcp"

	"verif/bx"
	"verif/ref"
)

// C11 — CompoundPacket enforces the RFC 3550 compound rules exactly.

func init() {
	register(&Prop{ID: "C11", Run: runC11,
		Rule: "graph space: every sequence of length 0..k over 13 packet kinds (SR, RR, SDES with CNAME as first item / later item / later chunk, SDES without CNAME, SDES without chunks, BYE, feedback, APP, XR, Raw, an SR that cannot be marshalled); a transition appends one packet. A 3-state reference automaton decides validity; Validate, Marshal, Unmarshal, CNAME, DestinationSSRC and MarshalSize are compared with it in every state. Non-trivial = sequences of length >= 2",
		Assumptions: []string{
			"the statement's 'random beyond the bound' is replaced by the exhaustive bound; longer sequences are argued by the automaton having 3 states",
		},
		BoundsQuick:    "13 kinds, all sequences of length 0..5 (402 234)",
		BoundsThorough: "13 kinds, all sequences of length 0..7 (67 977 560)",
	})
}

type c11kind struct {
	name   string
	p      rtcp.Packet
	isSR   bool
	isRR   bool
	isSDES bool
	cname  string // first CNAME text if any
	hasCN  bool
	bad    bool // cannot be marshalled
}

func c11Kinds() []c11kind {
	rep := func(n int) []rtcp.ReceptionReport {
		var out []rtcp.ReceptionReport
		for i := 0; i < n; i++ {
			out = append(out, rtcp.ReceptionReport{SSRC: uint32(0x1000 + i)})
		}
		return out
	}
	item := func(t rtcp.SDESType, s string) rtcp.SourceDescriptionItem { return rtcp.SourceDescriptionItem{Type: t, Text: s} }
	raw := rtcp.RawPacket([]byte{0x80, 192, 0, 1, 9, 9, 9, 9})
	return []c11kind{
		{name: "SR", isSR: true, p: &rtcp.SenderReport{SSRC: 0xa1, NTPTime: 1, Reports: rep(1)}},
		{name: "RR", isRR: true, p: &rtcp.ReceiverReport{SSRC: 0xa2}}, // no report blocks: an empty DestinationSSRC list
		{name: "SDES-cname-first", isSDES: true, hasCN: true, cname: "first@x", p: &rtcp.SourceDescription{Chunks: []rtcp.SourceDescriptionChunk{{Source: 1, Items: []rtcp.SourceDescriptionItem{item(rtcp.SDESCNAME, "first@x"), item(rtcp.SDESName, "n")}}}}},
		{name: "SDES-cname-later-item", isSDES: true, hasCN: true, cname: "later-item@x", p: &rtcp.SourceDescription{Chunks: []rtcp.SourceDescriptionChunk{{Source: 2, Items: []rtcp.SourceDescriptionItem{item(rtcp.SDESTool, "t"), item(rtcp.SDESCNAME, "later-item@x"), item(rtcp.SDESCNAME, "second-cname")}}}}},
		{name: "SDES-cname-later-chunk", isSDES: true, hasCN: true, cname: "later-chunk@x", p: &rtcp.SourceDescription{Chunks: []rtcp.SourceDescriptionChunk{{Source: 3, Items: []rtcp.SourceDescriptionItem{item(rtcp.SDESNote, "note")}}, {Source: 4}, {Source: 5, Items: []rtcp.SourceDescriptionItem{item(rtcp.SDESCNAME, "later-chunk@x")}}}}},
		{name: "SDES-no-cname", isSDES: true, p: &rtcp.SourceDescription{Chunks: []rtcp.SourceDescriptionChunk{{Source: 6, Items: []rtcp.SourceDescriptionItem{item(rtcp.SDESEmail, "e@x")}}}}},
		{name: "SDES-no-chunks", isSDES: true, p: &rtcp.SourceDescription{}},
		{name: "BYE", p: &rtcp.Goodbye{Sources: []uint32{7}, Reason: "bye"}},
		{name: "PLI", p: &rtcp.PictureLossIndication{SenderSSRC: 8, MediaSSRC: 9}},
		{name: "APP", p: &rtcp.ApplicationDefined{SubType: 1, SSRC: 10, Name: "abcd", Data: []byte{1, 2, 3}}},
		{name: "XR", p: &rtcp.ExtendedReport{SenderSSRC: 11, Reports: []rtcp.ReportBlock{&rtcp.ReceiverReferenceTimeReportBlock{NTPTimestamp: 5}}}},
		{name: "Raw", p: &raw},
		{name: "SR-32-reports", isSR: true, bad: true, p: &rtcp.SenderReport{SSRC: 0xa3, Reports: rep(32)}},
	}
}

func runC11(c *bx.Ctx) {
	kinds := c11Kinds()
	wire := make([][]byte, len(kinds))
	size := make([]int, len(kinds))
	for i, k := range kinds {
		b, err, pan := safeMarshal(k.p)
		if (err != nil || pan != "") != k.bad {
			if c.Shard == 0 {
				c.Report("C11/harness/kind-"+k.name, "HARNESS: member kind does not marshal as assumed", bx.Replay{Entry: "Marshal", Value: k.name, Expected: fmt.Sprint("bad=", k.bad), Observed: fmt.Sprint(err, pan)})
			}
		}
		wire[i] = append([]byte{}, b...)
		size[i] = k.p.MarshalSize()
	}
	maxLen := 5
	if c.Thorough() {
		maxLen = 7
	}
	idx := make([]int, 0, maxLen)
	check := func() {
		seq := make(rtcp.CompoundPacket, len(idx))
		names := ""
		allMarshal := true
		var cat []byte
		sum := 0
		for i, k := range idx {
			seq[i] = kinds[k].p
			names += kinds[k].name + " "
			if kinds[k].bad {
				allMarshal = false
			}
			cat = append(cat, wire[k]...)
			sum += size[k]
		}
		// totality of the accessors on every sequence, valid or not
		if msg, pan := bx.Guard(func() {
			_, _ = seq.CNAME()
			_ = seq.DestinationSSRC()
			_ = seq.MarshalSize()
			_ = seq.String()
		}); pan {
			c.Report("C11/accessor-panics", "CNAME / DestinationSSRC / MarshalSize / String panics on a compound: "+msg, bx.Replay{Entry: "accessors", Ops: names, Expected: "results", Observed: "panic: " + msg})
			return
		}
		c.T(4)
		// reference automaton
		valid, cname := false, ""
		if len(idx) > 0 && (kinds[idx[0]].isSR || kinds[idx[0]].isRR) {
			for _, k := range idx[1:] {
				if kinds[k].isRR {
					continue
				}
				if kinds[k].isSDES && kinds[k].hasCN {
					valid, cname = true, kinds[k].cname
				}
				break
			}
		}
		failed := false
		rp := func(entry, exp, obs string) bx.Replay { return bx.Replay{Entry: entry, Ops: names, Expected: exp, Observed: obs} }
		var verr error
		if msg, pan := bx.Guard(func() { verr = seq.Validate() }); pan {
			c.Report("C11/Validate/panic", "Validate panics", rp("Validate", "result", msg))
			return
		}
		c.T(1)
		if (verr == nil) != valid {
			c.Report(keyJoin("C11/Validate", fmt.Sprint("expected-valid=", valid)), "Validate disagrees with the RFC 3550 compound grammar", rp("Validate", fmt.Sprint("valid=", valid), fmt.Sprint(verr)))
			failed = true
		}
		var mb []byte
		var merr error
		if msg, pan := bx.Guard(func() { mb, merr = seq.Marshal() }); pan {
			c.Report("C11/Marshal/panic", "CompoundPacket.Marshal panics", rp("Marshal", "result", msg))
			return
		}
		c.T(1)
		if (merr == nil) != (valid && allMarshal) {
			c.Report(keyJoin("C11/Marshal", fmt.Sprint("expected-ok=", valid && allMarshal)), "CompoundPacket.Marshal succeeds/fails against Validate and the members", rp("Marshal", fmt.Sprint("ok=", valid && allMarshal), fmt.Sprint(merr)))
			failed = true
		}
		if merr == nil && !bytes.Equal(mb, cat) {
			c.Report("C11/Marshal/bytes", "CompoundPacket.Marshal is not the concatenation of its members", rp("Marshal", bx.Short(cat), bx.Short(mb)))
			failed = true
		}
		if merr != nil && len(mb) != 0 {
			c.Report("C11/Marshal/bytes-with-error", "CompoundPacket.Marshal returns bytes together with an error", rp("Marshal", "no bytes", bx.Short(mb)))
			failed = true
		}
		if allMarshal {
			var dec rtcp.CompoundPacket
			var uerr error
			if msg, pan := bx.Guard(func() { uerr = dec.Unmarshal(append([]byte{}, cat...)) }); pan {
				c.Report("C11/Unmarshal/panic", "CompoundPacket.Unmarshal panics", rp("Unmarshal", "result", msg))
				return
			}
			c.T(1)
			if (uerr == nil) != valid {
				c.Report(keyJoin("C11/Unmarshal", fmt.Sprint("expected-ok=", valid)), "CompoundPacket.Unmarshal succeeds/fails against the grammar", rp("Unmarshal", fmt.Sprint("ok=", valid), fmt.Sprint(uerr)))
				failed = true
			}
			if uerr == nil {
				if len(dec) != len(seq) {
					c.Report("C11/Unmarshal/count", "CompoundPacket.Unmarshal returns a different number of members", rp("Unmarshal", fmt.Sprint(len(seq)), fmt.Sprint(len(dec))))
					failed = true
				}
				for i := range dec {
					if _, ok := ref.Equal(quantise(seq[i]), dec[i]); !ok {
						c.Report(keyJoin("C11/Unmarshal/member", TypeName(seq[i])), "CompoundPacket.Unmarshal returns a different member", rp("Unmarshal", ref.Dump(seq[i]), ref.Dump(dec[i])))
						failed = true
					}
				}
			}
		}
		// datagrams that do not decode: surplus or missing octets at the end must make
		// CompoundPacket.Unmarshal fail whatever the members are
		if allMarshal && len(cat) >= 4 {
			for _, mut := range [][]byte{append(append([]byte{}, cat...), 0x80), append(append([]byte{}, cat...), 0x80, 0xc9), append(append([]byte{}, cat...), 0x80, 0xc9, 0x00), cat[:len(cat)-1], cat[:len(cat)-3]} {
				if _, serr := ref.Split(mut); serr == nil {
					continue // still a well-framed datagram (cannot happen for these cuts, but stay faithful to the reference)
				}
				var dec rtcp.CompoundPacket
				var uerr error
				msg, pan := bx.Guard(func() { uerr = dec.Unmarshal(mut) })
				c.T(1)
				if pan {
					c.Report("C11/Unmarshal/panic", "CompoundPacket.Unmarshal panics", rp("Unmarshal", "error", msg))
					failed = true
				} else if uerr == nil {
					c.Report("C11/Unmarshal/undecodable-accepted", "CompoundPacket.Unmarshal succeeds on a datagram that does not decode (surplus or missing octets at the end)", bx.Replay{Entry: "own:CompoundPacket", InputHex: bx.Hex(mut), Ops: names, Expected: "error", Observed: "nil"})
					failed = true
				}
			}
		}
		if valid {
			var got string
			var cerr error
			if msg, pan := bx.Guard(func() { got, cerr = seq.CNAME() }); pan {
				c.Report("C11/CNAME/panic", "CNAME panics", rp("CNAME", cname, msg))
				return
			}
			c.T(1)
			if cerr != nil || got != cname {
				c.Report("C11/CNAME", "CNAME() does not return the first CNAME text without error on a valid compound", rp("CNAME", cname, fmt.Sprint(got, " ", cerr)))
				failed = true
			}
			d, pan := safeDest(&seq)
			want := ref.DestSSRC(seq[0])
			c.T(2)
			if pan != "" || !u32eq(d, want) {
				c.Report("C11/DestinationSSRC", "DestinationSSRC is not the first member's", rp("DestinationSSRC", fmt.Sprintf("%x", want), fmt.Sprintf("%x %s", d, pan)))
				failed = true
			}
			if ms := seq.MarshalSize(); ms != sum {
				c.Report("C11/MarshalSize", "MarshalSize is not the sum of the members", rp("MarshalSize", fmt.Sprint(sum), fmt.Sprint(ms)))
				failed = true
			}
		}
		if len(idx) >= 2 && !failed {
			c.NT()
		}
		if valid {
			c.Count("valid-sequences", 1)
		}
		c.Sample(func() interface{} { return map[string]interface{}{"sequence": names, "valid": valid, "cname": cname} })
	}
	var rec func()
	rec = func() {
		check()
		c.Add(1)
		if len(idx) == maxLen {
			return
		}
		for i := range kinds {
			idx = append(idx, i)
			rec()
			idx = idx[:len(idx)-1]
		}
	}
	c.Space("sequences")
	if c.Mine() {
		idx = idx[:0]
		check()
	}
	for i := range kinds {
		if c.Mine() {
			idx = append(idx[:0], i)
			check()
		}
		for j := range kinds {
			if !c.MineBlock(0) {
				continue
			}
			if c.Expired() {
				return
			}
			idx = append(idx[:0], i, j)
			rec()
		}
	}
	c11Coinciding(c, kinds)
	c11RawReportBytes(c, kinds)
}

// c11RawReportBytes: a RawPacket whose bytes happen to be a report or an SDES is still a RawPacket —
// the rules speak about the members of the compound (their Go types), and an in-memory compound is
// judged before anything is put on the wire. Sequences of up to three members with at least one such
// member; Validate and Marshal against the automaton that classifies it as "other".
func c11RawReportBytes(c *bx.Ctx, kinds []c11kind) {
	c.Space("raw-members-carrying-report-bytes")
	mk := func(p rtcp.Packet) *rtcp.RawPacket {
		b, _, _ := safeMarshal(p)
		r := rtcp.RawPacket(append([]byte{}, b...))
		return &r
	}
	var sdes rtcp.Packet
	for _, k := range kinds {
		if k.isSDES && k.hasCN && sdes == nil {
			sdes = k.p
		}
	}
	ks := append([]c11kind{}, kinds...)
	first := len(ks)
	ks = append(ks,
		c11kind{name: "Raw(RR-bytes)", p: mk(&rtcp.ReceiverReport{SSRC: 0xb1})},
		c11kind{name: "Raw(SR-bytes)", p: mk(&rtcp.SenderReport{SSRC: 0xb2, NTPTime: 3})},
		c11kind{name: "Raw(SDES-cname-bytes)", p: mk(sdes)},
		c11kind{name: "Raw(80c90000)", p: func() rtcp.Packet { r := rtcp.RawPacket{0x80, 201, 0, 0}; return &r }()},
	)
	var rec func(idx []int)
	rec = func(idx []int) {
		hasRaw := false
		for _, k := range idx {
			if k >= first {
				hasRaw = true
			}
		}
		if hasRaw && c.Mine() {
			seq := make(rtcp.CompoundPacket, len(idx))
			names := ""
			allMarshal := true
			for i, k := range idx {
				seq[i] = ks[k].p
				names += ks[k].name + " "
				if ks[k].bad {
					allMarshal = false
				}
			}
			valid := false
			if ks[idx[0]].isSR || ks[idx[0]].isRR {
				for _, k := range idx[1:] {
					if ks[k].isRR {
						continue
					}
					valid = ks[k].isSDES && ks[k].hasCN
					break
				}
			}
			var verr, merr error
			msg, pan := bx.Guard(func() { verr = seq.Validate(); _, merr = seq.Marshal() })
			c.T(2)
			rp := func(entry, exp, obs string) bx.Replay { return bx.Replay{Entry: entry, Ops: names, Expected: exp, Observed: obs} }
			switch {
			case pan:
				c.Report("C11/raw-report-bytes/panic", "Validate / Marshal panics on a compound with a RawPacket member", rp("Validate", "result", msg))
			case (verr == nil) != valid:
				c.Report(keyJoin("C11/raw-report-bytes/Validate", fmt.Sprint("expected-valid=", valid)), "Validate treats a RawPacket member as the packet its bytes would decode to", rp("Validate", fmt.Sprint("valid=", valid), fmt.Sprint(verr)))
			case (merr == nil) != (valid && allMarshal):
				c.Report(keyJoin("C11/raw-report-bytes/Marshal", fmt.Sprint("expected-ok=", valid && allMarshal)), "CompoundPacket.Marshal succeeds/fails against Validate for a compound with a RawPacket member", rp("Marshal", fmt.Sprint("ok=", valid && allMarshal), fmt.Sprint(merr)))
			default:
				c.NT()
			}
		}
		if len(idx) == 3 {
			return
		}
		for k := range ks {
			rec(append(append([]int{}, idx...), k))
		}
	}
	for k := range ks {
		rec([]int{k})
	}
}

// c11RefCNAME reads the documented answer off a compound: the text of the first CNAME item of the first
// later packet that is not an RR, if that packet is an SDES.
func c11RefCNAME(seq rtcp.CompoundPacket) (string, bool) {
	if len(seq) == 0 {
		return "", false
	}
	switch seq[0].(type) {
	case *rtcp.SenderReport, *rtcp.ReceiverReport:
	default:
		return "", false
	}
	for _, m := range seq[1:] {
		if _, ok := m.(*rtcp.ReceiverReport); ok {
			continue
		}
		sd, ok := m.(*rtcp.SourceDescription)
		if !ok {
			return "", false
		}
		for _, ch := range sd.Chunks {
			for _, it := range ch.Items {
				if it.Type == rtcp.SDESCNAME {
					return it.Text, true
				}
			}
		}
		return "", false
	}
	return "", false
}

// c11Coinciding: the kinds carry pairwise distinct SSRC values, so nothing in the main space makes a
// source of one member equal to a field of another. Here every sequence of two or three members (plus an
// SDES with two CNAME chunks) is rebuilt with every pair of its 32-bit fields made equal, and the
// answers that must not depend on such coincidences are compared again.
func c11Coinciding(c *bx.Ctx, kinds []c11kind) {
	c.Space("coinciding-ssrcs")
	item := func(t rtcp.SDESType, s string) rtcp.SourceDescriptionItem { return rtcp.SourceDescriptionItem{Type: t, Text: s} }
	ks := append([]c11kind{}, kinds...)
	ks = append(ks, c11kind{name: "SDES-two-cname-chunks", isSDES: true, hasCN: true, cname: "one@x", p: &rtcp.SourceDescription{Chunks: []rtcp.SourceDescriptionChunk{
		{Source: 21, Items: []rtcp.SourceDescriptionItem{item(rtcp.SDESCNAME, "one@x")}}, {Source: 22, Items: []rtcp.SourceDescriptionItem{item(rtcp.SDESCNAME, "two@x")}}}}})
	var good []int
	for i, k := range ks {
		if !k.bad && k.name != "Raw" {
			good = append(good, i)
		}
	}
	try := func(idx []int) {
		if !c.MineBlock(0) {
			return
		}
		names := ""
		for _, k := range idx {
			names += ks[k].name + " "
		}
		b := ref.Builder{Type: "CompoundSequence", Shape: names, Make: func() rtcp.Packet {
			seq := make(rtcp.CompoundPacket, len(idx))
			for i, k := range idx {
				seq[i] = ref.Clone(ks[k].p).(rtcp.Packet)
			}
			return &seq
		}}
		ref.Aliased(b, nil, func(v ref.V) bool {
			c.Add(1)
			seq := *(v.P.(*rtcp.CompoundPacket))
			want, valid := c11RefCNAME(seq)
			rp := func(entry, exp, obs string) bx.Replay {
				return bx.Replay{Entry: entry, Ops: names + v.Dev, Value: ref.Dump(v.P), Expected: exp, Observed: obs}
			}
			var verr, cerr error
			var got string
			var dest []uint32
			if msg, pan := bx.Guard(func() { verr = seq.Validate(); got, cerr = seq.CNAME(); dest = seq.DestinationSSRC() }); pan {
				c.Report("C11/coinciding/panic", "Validate / CNAME / DestinationSSRC panics when two 32-bit fields of a compound coincide", rp("accessors", "results", msg))
				return true
			}
			c.T(3)
			ok := true
			if (verr == nil) != valid {
				c.Report(keyJoin("C11/coinciding/Validate", fmt.Sprint("expected-valid=", valid)), "Validate depends on a coincidence of two 32-bit fields", rp("Validate", fmt.Sprint("valid=", valid), fmt.Sprint(verr)))
				ok = false
			}
			if valid && (cerr != nil || got != want) {
				c.Report("C11/coinciding/CNAME", "CNAME() is not the text of the first CNAME item when two 32-bit fields of the compound coincide", rp("CNAME", want, fmt.Sprint(got, " ", cerr)))
				ok = false
			}
			if valid && len(seq) > 0 && !u32eq(dest, ref.DestSSRC(seq[0])) {
				c.Report("C11/coinciding/DestinationSSRC", "DestinationSSRC of the compound is not that of its first member when two 32-bit fields coincide", rp("DestinationSSRC", fmt.Sprintf("%x", ref.DestSSRC(seq[0])), fmt.Sprintf("%x", dest)))
				ok = false
			}
			if ok && valid {
				c.NT()
			}
			return !c.Expired()
		})
	}
	for _, a := range good {
		for _, b := range good {
			try([]int{a, b})
			for _, d := range good {
				try([]int{a, b, d})
			}
		}
	}
}
