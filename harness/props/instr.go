package props

// Accessors to the injected runtime; no-ops in the plain build.
var (
	stepsGet       = func() int64 { return 0 }
	stepsSetBudget = func(int64) {}
	setHook        = func(func()) {}
	syncDepthGet   = func() int { return 0 }
	rawHookSet     = func(func()) {} // statement hook without the scheduler's blocking hook
)

// CoverageGet returns the statement-hit vector of the instrumented build (nil in the plain build).
var CoverageGet = func() []uint8 { return nil }
