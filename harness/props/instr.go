package props

// Accessors to the injected runtime; no-ops in the plain build.
var (
	stepsGet       = func() int64 { return 0 }
	stepsSetBudget = func(int64) {}
	setHook        = func(func()) {}
)
