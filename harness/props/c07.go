package props

import (
	"bytes"
	"fmt"

	"github.com/pion/rtcp"

	"verif/bx"
	"verif/ref"
)

// C07 — packets are dispatched to the right Go type; decoders reject foreign types.

func init() {
	register(&Prop{ID: "C07", Run: runC07,
		Rule: "(i) every (PT 0..255, count 0..31, P) header over a body alphabet (0..6 words of 00/FF/ramp and the valid RFC body of every typed format); (ii) every ordered pair (decoder T, foreign packet U) over the core of D, U in RFC encoding and in the library's own encoding; (iii) Marshal output of every core value dispatched back. Non-trivial = decoding succeeded and the dynamic type / verbatim bytes were compared, or a foreign packet was offered",
		Assumptions: []string{
			"registered (PT,FMT) table taken from the property statement / RFCs",
			"valid bodies come from the reference encoder applied to the core of D",
		},
		BoundsQuick:    "256 PT x 32 counts x 2 P x (21 filler bodies + ~30 valid bodies); all (T,U) pairs over every core shape of D",
		BoundsThorough: "same with the thorough core of D",
	})
}

// registered returns the short type name the RFCs assign to (pt, count), or "".
func registered(pt, count int) string {
	switch pt {
	case 200:
		return "SenderReport"
	case 201:
		return "ReceiverReport"
	case 202:
		return "SourceDescription"
	case 203:
		return "Goodbye"
	case 204:
		return "ApplicationDefined"
	case 205:
		switch count {
		case 1:
			return "TransportLayerNack"
		case 5:
			return "RapidResynchronizationRequest"
		case 11:
			return "CCFeedbackReport"
		case 15:
			return "TransportLayerCC"
		}
	case 206:
		switch count {
		case 1:
			return "PictureLossIndication"
		case 2:
			return "SliceLossIndication"
		case 4:
			return "FullIntraRequest"
		case 15:
			return "ReceiverEstimatedMaximumBitrate"
		}
	case 207:
		return "ExtendedReport"
	}
	return ""
}

type body struct {
	name  string
	bytes []byte
	typ   string // for valid bodies: the type it belongs to
	pt    int
	count int
	pbit  bool
}

func fillerBodies() []body {
	var out []body
	for w := 0; w <= 6; w++ {
		for k, nm := range []string{"00", "ff", "ramp"} {
			b := make([]byte, 4*w)
			for i := range b {
				switch k {
				case 0:
					b[i] = 0
				case 1:
					b[i] = 0xff
				default:
					b[i] = byte(i + 1)
				}
			}
			out = append(out, body{name: fmt.Sprintf("%dw-%s", w, nm), bytes: b})
		}
	}
	return out
}

func validBodies(thorough bool) []body {
	var out []body
	opt, _, _ := ccfbReading()
	seen := map[string]int{}
	ref.Core(thorough, func(v ref.V) bool {
		if v.Type == "RawPacket" || v.Type == "CompoundPacket" {
			return true
		}
		// two or three shapes per type are enough for dispatch
		if seen[v.Type] >= 3 && !thorough {
			return true
		}
		w, err := ref.Encode(v.P, opt)
		if err != nil || len(w.B) < 4 {
			return true
		}
		// skip shapes the current tree cannot decode (C02's findings), so that
		// "must succeed on a valid body" is only asserted where round-trip works
		if sc := shapeClass(v.P); sc != "" {
			return true
		}
		seen[v.Type]++
		out = append(out, body{name: v.String(), bytes: w.B[4:], typ: v.Type, pt: int(w.B[1]), count: int(w.B[0] & 0x1f), pbit: w.B[0]&0x20 != 0})
		return true
	})
	return out
}

func frame(pt, count int, p bool, b []byte) []byte {
	f := make([]byte, 4+len(b))
	f[0] = 0x80 | byte(count)
	if p {
		f[0] |= 0x20
	}
	f[1] = byte(pt)
	f[2] = byte(len(b) / 4 >> 8)
	f[3] = byte(len(b) / 4)
	copy(f[4:], b)
	return f
}

func runC07(c *bx.Ctx) {
	fill := fillerBodies()
	valid := validBodies(c.Thorough())
	c.Space("dispatch")
	for pt := 0; pt < 256; pt++ {
		for cnt := 0; cnt < 32; cnt++ {
			if !c.MineBlock(0) {
				continue
			}
			if c.Expired() {
				return
			}
			reg := registered(pt, cnt)
			for _, p := range []bool{false, true} {
				for _, bd := range append(append([]body{}, fill...), valid...) {
					c.Add(1)
					f := frame(pt, cnt, p, bd.bytes)
					in := append([]byte{}, f...)
					ps, err, pan := safeDgram(in)
					c.T(1)
					if !bytes.Equal(in, f) {
						c.Report("C07/dispatch/input-modified", "rtcp.Unmarshal modifies its input", bx.Replay{Entry: "dgram", InputHex: bx.Hex(f), Expected: "input unchanged", Observed: bx.Hex(in)})
					}
					rp := func(exp, obs string) bx.Replay {
						return bx.Replay{Entry: "dgram", InputHex: bx.Hex(f), Expected: exp, Observed: obs}
					}
					if pan != "" {
						c.Report(keyJoin("C07/dispatch/panic", fmt.Sprintf("pt%d", pt)), "rtcp.Unmarshal panics", rp("value or error", "panic: "+pan))
						continue
					}
					if reg == "" {
						// must be exactly one RawPacket holding the frame verbatim
						if err != nil || len(ps) != 1 {
							c.Report(keyJoin("C07/dispatch/unregistered-rejected", ptClass(pt, cnt)), fmt.Sprintf("a well-framed packet with unregistered PT=%d count/FMT=%d is not returned as one RawPacket", pt, cnt), rp("one RawPacket", fmt.Sprint(len(ps), " ", err)))
							continue
						}
						r, isRaw := ps[0].(*rtcp.RawPacket)
						if !isRaw {
							c.Report(keyJoin("C07/dispatch/unregistered-typed", ptClass(pt, cnt), TypeName(ps[0])), fmt.Sprintf("unregistered PT=%d FMT=%d is decoded as %s", pt, cnt, TypeName(ps[0])), rp("RawPacket", TypeName(ps[0])))
							continue
						}
						if !bytes.Equal([]byte(*r), f) {
							c.Report("C07/dispatch/raw-not-verbatim", "RawPacket does not hold the frame's bytes verbatim", rp(bx.Hex(f), bx.Hex([]byte(*r))))
							continue
						}
						c.NT()
						continue
					}
					// registered pair
					own := bd.typ == reg && bd.pt == pt && bd.count == cnt && bd.pbit == p
					if err != nil {
						if own {
							c.Report(keyJoin("C07/dispatch/valid-body-rejected", reg), fmt.Sprintf("a valid RFC encoding of %s (PT=%d FMT/count=%d) makes rtcp.Unmarshal fail", reg, pt, cnt), rp(reg, "error: "+err.Error()))
						}
						continue
					}
					if len(ps) != 1 || TypeName(ps[0]) != reg {
						got := "nothing"
						if len(ps) > 0 {
							got = TypeName(ps[0])
						}
						c.Report(keyJoin("C07/dispatch/wrong-type", reg, got), fmt.Sprintf("PT=%d FMT/count=%d is registered for %s but decoded as %s", pt, cnt, reg, got), rp(reg, fmt.Sprint(got, " n=", len(ps))))
						continue
					}
					c.NT()
				}
			}
		}
	}
	// frames of 64 KiB and more with unregistered types: still one verbatim RawPacket
	c.Space("dispatch-large-frames")
	for _, pf := range [][2]int{{0, 0}, {192, 3}, {199, 31}, {208, 0}, {255, 31}, {205, 0}, {205, 2}, {205, 31}, {206, 0}, {206, 3}, {206, 31}} {
		for _, words := range []int{0x3ffd, 0x3ffe, 0x3fff, 0x4000, 0x7fff, 0x8000, 0xbfff, 0xc000, 0xfffe} {
			if !c.Mine() {
				continue
			}
			f := frame(pf[0], pf[1], false, make([]byte, 4*words))
			for i := 4; i < len(f); i++ {
				f[i] = byte(i * 5)
			}
			ps, err, pan := safeDgram(append([]byte{}, f...))
			c.T(1)
			ok := pan == "" && err == nil && len(ps) == 1
			if ok {
				r, isRaw := ps[0].(*rtcp.RawPacket)
				ok = isRaw && bytes.Equal([]byte(*r), f)
			}
			if !ok {
				c.Report(keyJoin("C07/dispatch/large-frame", ptClass(pf[0], pf[1])), fmt.Sprintf("a well-framed %d-octet packet with unregistered PT=%d FMT=%d is not returned as one verbatim RawPacket", len(f), pf[0], pf[1]),
					bx.Replay{Entry: "dgram", InputHex: bx.Hex(f[:64]), Ops: fmt.Sprintf("frame of %d octets (body byte i = i*5)", len(f)), Expected: "one verbatim RawPacket", Observed: fmt.Sprint(len(ps), " packets ", err, pan)})
				continue
			}
			c.NT()
		}
	}
	// (ii) foreign packets
	c.Space("foreign")
	opt, _, _ := ccfbReading()
	type enc struct {
		name string
		b    []byte
		typ  string
	}
	var us []enc
	ref.Core(c.Thorough(), func(v ref.V) bool {
		if v.Type == "CompoundPacket" {
			return true
		}
		if w, err := ref.Encode(v.P, opt); err == nil {
			us = append(us, enc{v.String() + "/rfc", w.B, v.Type})
		}
		if b, err, pan := safeMarshal(v.P); err == nil && pan == "" {
			us = append(us, enc{v.String() + "/own", append([]byte{}, b...), v.Type})
		}
		return true
	})
	for _, e := range Entries {
		if e.New == nil || e.Name == "own:RawPacket" || e.Name == "own:CompoundPacket" {
			continue
		}
		T := e.Name[4:]
		for _, u := range us {
			if u.typ == T {
				continue
			}
			if !c.Mine() {
				continue
			}
			q, err, pan := safeOwn(T, append([]byte{}, u.b...))
			c.T(1)
			if pan != "" {
				c.Report(keyJoin("C07/foreign/panic", T, u.typ), T+" decoder panics on a well-formed "+u.typ, bx.Replay{Entry: e.Name, InputHex: bx.Hex(u.b), Expected: "error", Observed: "panic: " + pan})
				continue
			}
			if err == nil {
				rel := ptClass(int(u.b[1]), int(u.b[0]&0x1f))
				if e.PT == int(u.b[1]) {
					rel = "same-pt-other-fmt"
				}
				c.Report(keyJoin("C07/foreign/accepted", T, rel), T+".Unmarshal accepts a well-formed "+u.typ+" packet", bx.Replay{Entry: e.Name, InputHex: bx.Hex(u.b), Expected: "error", Observed: ref.Dump(q)})
				continue
			}
			c.NT()
		}
	}
	// (ii') every type's own valid body under every foreign (PT, FMT) header: a well-formed packet
	// of another (or of no registered) type that happens to carry this type's body layout
	c.Space("foreign-headers-over-own-body")
	for _, bd := range valid {
		e := EntryByName("own:" + bd.typ)
		if e == nil {
			continue
		}
		for pt := 0; pt < 256; pt++ {
			if !c.MineBlock(0) {
				continue
			}
			for cnt := 0; cnt < 32; cnt++ {
				if registered(pt, cnt) == bd.typ {
					continue
				}
				// count-carrying types keep their count (it is content); FMT-keyed types try every FMT
				if e.FMT < 0 && cnt != bd.count {
					continue
				}
				c.Add(1)
				f := frame(pt, cnt, bd.pbit, bd.bytes)
				q, err, pan := safeOwn(bd.typ, f)
				c.T(1)
				if pan != "" {
					c.Report(keyJoin("C07/foreign/panic", bd.typ, ptClass(pt, cnt)), bd.typ+" decoder panics on a foreign header over its own body layout", bx.Replay{Entry: e.Name, InputHex: bx.Hex(f), Expected: "error", Observed: "panic: " + pan})
					continue
				}
				if err == nil {
					rel := ptClass(pt, cnt)
					if e.PT == pt {
						rel = "same-pt-other-fmt"
					}
					c.Report(keyJoin("C07/foreign/accepted", bd.typ, rel), fmt.Sprintf("%s.Unmarshal accepts a packet with PT=%d FMT/count=%d", bd.typ, pt, cnt), bx.Replay{Entry: e.Name, InputHex: bx.Hex(f), Expected: "error", Observed: ref.Dump(q)})
					continue
				}
				c.NT()
			}
		}
	}
	// (iii) own output dispatched back to the same type
	c.Space("own-output")
	ref.Core(c.Thorough(), func(v ref.V) bool {
		if !c.Mine() {
			return true
		}
		if v.Type == "CompoundPacket" {
			return true
		}
		b, err, pan := safeMarshal(v.P)
		c.T(1)
		if err != nil || pan != "" {
			return true
		}
		ps, err, pan := safeDgram(append([]byte{}, b...))
		c.T(1)
		if pan != "" || err != nil || len(ps) != 1 {
			if shapeClass(v.P) == "" {
				c.Report(keyJoin("C07/own-output/rejected", v.Type), "a type's Marshal output is not accepted by rtcp.Unmarshal", bx.Replay{Entry: "Marshal+dgram", Value: valueString(v), ValueGob: valueGob(v), Expected: v.Type, Observed: fmt.Sprint(len(ps), err, pan)})
			}
			return true
		}
		if TypeName(ps[0]) != v.Type {
			c.Report(keyJoin("C07/own-output/wrong-type", v.Type, TypeName(ps[0])), "a type's Marshal output is dispatched to a different Go type", bx.Replay{Entry: "Marshal+dgram", Value: valueString(v), ValueGob: valueGob(v), Expected: v.Type, Observed: TypeName(ps[0])})
			return true
		}
		c.NT()
		c.Sample(func() interface{} { return map[string]string{"value": v.String(), "dispatched_to": TypeName(ps[0])} })
		return true
	})
}

func ptClass(pt, cnt int) string {
	if pt == 205 || pt == 206 {
		return fmt.Sprintf("pt%d-fmt%d", pt, cnt)
	}
	return fmt.Sprintf("pt%d", pt)
}
