package props

import (
	"github.com/pion/rtcp"
)

// Entry is one exported decode entry point.
type Entry struct {
	Name string
	New  func() rtcp.Packet                       // nil for sub-structure decoders and dgram
	Fn   func(b []byte) (interface{}, error)      // decode into a fresh receiver
	PT   int                                      // registered packet type, -1 if none
	FMT  int                                      // registered FMT, -1 if the count field is a count
}

func pktEntry(name string, pt, fmtv int, mk func() rtcp.Packet) Entry {
	return Entry{Name: "own:" + name, New: mk, PT: pt, FMT: fmtv, Fn: func(b []byte) (interface{}, error) {
		p := mk()
		err := p.Unmarshal(b)
		return p, err
	}}
}

// Entries lists the 24 decode entry points named by C01.
var Entries = []Entry{
	{Name: "dgram", PT: -1, FMT: -1, Fn: func(b []byte) (interface{}, error) { return rtcp.Unmarshal(b) }},
	pktEntry("SenderReport", 200, -1, func() rtcp.Packet { return new(rtcp.SenderReport) }),
	pktEntry("ReceiverReport", 201, -1, func() rtcp.Packet { return new(rtcp.ReceiverReport) }),
	pktEntry("SourceDescription", 202, -1, func() rtcp.Packet { return new(rtcp.SourceDescription) }),
	pktEntry("Goodbye", 203, -1, func() rtcp.Packet { return new(rtcp.Goodbye) }),
	pktEntry("ApplicationDefined", 204, -1, func() rtcp.Packet { return new(rtcp.ApplicationDefined) }),
	pktEntry("TransportLayerNack", 205, 1, func() rtcp.Packet { return new(rtcp.TransportLayerNack) }),
	pktEntry("RapidResynchronizationRequest", 205, 5, func() rtcp.Packet { return new(rtcp.RapidResynchronizationRequest) }),
	pktEntry("TransportLayerCC", 205, 15, func() rtcp.Packet { return new(rtcp.TransportLayerCC) }),
	pktEntry("CCFeedbackReport", 205, 11, func() rtcp.Packet { return new(rtcp.CCFeedbackReport) }),
	pktEntry("PictureLossIndication", 206, 1, func() rtcp.Packet { return new(rtcp.PictureLossIndication) }),
	pktEntry("SliceLossIndication", 206, 2, func() rtcp.Packet { return new(rtcp.SliceLossIndication) }),
	pktEntry("FullIntraRequest", 206, 4, func() rtcp.Packet { return new(rtcp.FullIntraRequest) }),
	pktEntry("ReceiverEstimatedMaximumBitrate", 206, 15, func() rtcp.Packet { return new(rtcp.ReceiverEstimatedMaximumBitrate) }),
	pktEntry("ExtendedReport", 207, -1, func() rtcp.Packet { return new(rtcp.ExtendedReport) }),
	pktEntry("RawPacket", -1, -1, func() rtcp.Packet { return new(rtcp.RawPacket) }),
	pktEntry("CompoundPacket", -1, -1, func() rtcp.Packet { return new(rtcp.CompoundPacket) }),
	{Name: "sub:Header", PT: -1, FMT: -1, Fn: func(b []byte) (interface{}, error) { var h rtcp.Header; err := h.Unmarshal(b); return h, err }},
	{Name: "sub:ReceptionReport", PT: -1, FMT: -1, Fn: func(b []byte) (interface{}, error) {
		var h rtcp.ReceptionReport
		err := h.Unmarshal(b)
		return h, err
	}},
	{Name: "sub:SourceDescriptionChunk", PT: -1, FMT: -1, Fn: func(b []byte) (interface{}, error) {
		var h rtcp.SourceDescriptionChunk
		err := h.Unmarshal(b)
		return h, err
	}},
	{Name: "sub:SourceDescriptionItem", PT: -1, FMT: -1, Fn: func(b []byte) (interface{}, error) {
		var h rtcp.SourceDescriptionItem
		err := h.Unmarshal(b)
		return h, err
	}},
	{Name: "sub:RunLengthChunk", PT: -1, FMT: -1, Fn: func(b []byte) (interface{}, error) {
		var h rtcp.RunLengthChunk
		err := h.Unmarshal(b)
		return h, err
	}},
	{Name: "sub:StatusVectorChunk", PT: -1, FMT: -1, Fn: func(b []byte) (interface{}, error) {
		var h rtcp.StatusVectorChunk
		err := h.Unmarshal(b)
		return h, err
	}},
	{Name: "sub:RecvDelta", PT: -1, FMT: -1, Fn: func(b []byte) (interface{}, error) {
		var h rtcp.RecvDelta
		err := h.Unmarshal(b)
		return h, err
	}},
}

// EntryByName finds an entry.
func EntryByName(n string) *Entry {
	for i := range Entries {
		if Entries[i].Name == n {
			return &Entries[i]
		}
	}
	return nil
}

// TypeName returns the short Go type name of a packet.
func TypeName(p rtcp.Packet) string {
	switch p.(type) {
	case *rtcp.SenderReport:
		return "SenderReport"
	case *rtcp.ReceiverReport:
		return "ReceiverReport"
	case *rtcp.SourceDescription:
		return "SourceDescription"
	case *rtcp.Goodbye:
		return "Goodbye"
	case *rtcp.ApplicationDefined:
		return "ApplicationDefined"
	case *rtcp.TransportLayerNack:
		return "TransportLayerNack"
	case *rtcp.RapidResynchronizationRequest:
		return "RapidResynchronizationRequest"
	case *rtcp.TransportLayerCC:
		return "TransportLayerCC"
	case *rtcp.CCFeedbackReport:
		return "CCFeedbackReport"
	case *rtcp.PictureLossIndication:
		return "PictureLossIndication"
	case *rtcp.SliceLossIndication:
		return "SliceLossIndication"
	case *rtcp.FullIntraRequest:
		return "FullIntraRequest"
	case *rtcp.ReceiverEstimatedMaximumBitrate:
		return "ReceiverEstimatedMaximumBitrate"
	case *rtcp.ExtendedReport:
		return "ExtendedReport"
	case *rtcp.RawPacket:
		return "RawPacket"
	case *rtcp.CompoundPacket:
		return "CompoundPacket"
	case nil:
		return "nil"
	}
	return "other"
}
