package props

import (
	"bytes"
	"encoding/binary"
	"fmt"
	"os"
	"runtime"
	"strings"
	"time"

	"verif/bx"
)

// C01 — decoding arbitrary bytes never panics, hangs or over-allocates.

func init() {
	register(&Prop{ID: "C01", Run: runC01, Instr: true, DeathIsViolation: true,
		Rule: "byte strings from four exhaustively enumerated spaces (S1 all short strings; S2 header x length lattice incl. the uint16 wrap points; S3 the <=2-deviation neighbourhood of every valid seed encoding: every position x 256 values, every 16-bit control field x 65536 values, every prefix, extensions, pairs of control octets x boundary bytes; S4 amplification templates up to 262144 octets), each offered to the 24 decode entry points. A case is one input (offered to 2..24 entry points; calls are counted as transitions); non-trivial = it was executed under the panic, step-budget and allocation-budget oracles",
		Assumptions: []string{
			"step budget 1e7 + 1e4*len statements on the statement-instrumented build decides 'loops without bound' deterministically (heaviest legitimate decode measured: 2.6e6 statements for 65 KB)",
			"allocation budget 8 MiB + 128*len bytes of total allocation per call (worst legitimate ratio measured 58x)",
			"inputs more than two deviations away from every seed and longer than the S1/S2 lattices are not enumerated (data independence of copied octets is probed by the full 256-value sweep at every position, not proved)",
		},
		BoundsQuick:    "S1 len 0..2 x 24 entries; S2 9 counts x 13 PT x 35 header lengths x ~33 buffer lengths x 4 bodies x P x 24 entries; S3 k=1 all positions x 256 on every seed (dgram+own; control region to all 24), 16-bit control sweeps on ~3 seeds per type, prefixes/extensions on every seed, k=2 on representative seeds; S4 all templates",
		BoundsThorough: "S1 len 0..3; S2 32 counts and denser buffer lengths; S3 16-bit control sweeps on every seed <= 256 octets, k=2 on every seed <= 128 octets; S4 all templates",
	})
}

type c01 struct {
	c       *bx.Ctx
	ms      runtime.MemStats
	batch   []c01rec
	pending int // bytes of harness-made input copies in the batch
	last    uint64
}

type c01rec struct {
	e  *Entry
	in []byte
}

const (
	allocFixed  = 8 << 20
	allocPerOct = 128
	batchLimit  = 8 << 20
)

func (x *c01) totalAlloc() uint64 {
	runtime.ReadMemStats(&x.ms)
	return x.ms.TotalAlloc
}

// call runs one entry point on (a private copy of) the input under the
// panic, step and allocation oracles.
func (x *c01) call(e *Entry, in []byte) {
	c := x.c
	priv := append([]byte(nil), in...)
	c.Mark(e.Name, priv)
	stepsSetBudget(10_000_000 + 10_000*int64(len(in)))
	msg, pan := bx.Guard(func() { _, _ = e.Fn(priv) })
	c.T(1)
	if pan {
		if strings.Contains(msg, "step budget exceeded") {
			c.Report(keyJoin("C01", e.Name, "step-budget"), fmt.Sprintf("%s executes more than 1e7+1e4*len statements on %d input octets (unbounded loop)", e.Name, len(in)),
				bx.Replay{Entry: e.Name, InputHex: bx.Hex(in), Expected: "value or error within the step budget", Observed: "step budget exceeded"})
		} else {
			c.Report(keyJoin("C01", e.Name, "panic", bx.PanicSite(msg)), e.Name+" panics: "+msg,
				bx.Replay{Entry: e.Name, InputHex: bx.Hex(in), Expected: "value or error", Observed: "panic: " + msg})
		}
		return
	}
	if !bytes.Equal(priv, in) {
		c.Report(keyJoin("C01", e.Name, "input-modified"), e.Name+" modifies its input buffer",
			bx.Replay{Entry: e.Name, InputHex: bx.Hex(in), Expected: "input unchanged", Observed: bx.Short(priv)})
	}
	x.batch = append(x.batch, c01rec{e, priv})
	x.pending += len(priv) + 64
	if len(x.batch) >= 256 || x.pending > 32<<20 {
		x.flush()
	}
}

func (x *c01) judge(e *Entry, in []byte, d uint64) {
	if d > uint64(allocFixed+allocPerOct*len(in)) {
		x.c.Report(keyJoin("C01", e.Name, "alloc-budget"), fmt.Sprintf("%s allocates %d bytes for %d input octets (budget 8 MiB + 128 per octet)", e.Name, d, len(in)),
			bx.Replay{Entry: e.Name, InputHex: bx.Hex(in), Expected: "allocation within 8 MiB + 128*len", Observed: fmt.Sprintf("%d bytes allocated", d)})
	}
}

func (x *c01) flush() {
	if len(x.batch) == 0 {
		x.last = x.totalAlloc()
		return
	}
	now := x.totalAlloc()
	d := now - x.last
	if d > uint64(batchLimit+x.pending) {
		// re-measure each call of the batch on its own
		for _, r := range x.batch {
			stepsSetBudget(10_000_000 + 10_000*int64(len(r.in)))
			b := x.totalAlloc()
			_, _ = bx.Guard(func() { _, _ = r.e.Fn(r.in) })
			x.c.T(1)
			x.judge(r.e, r.in, x.totalAlloc()-b)
		}
		x.c.Count("alloc-remeasured-batches", 1)
	}
	x.batch = x.batch[:0]
	x.pending = 0
	x.last = x.totalAlloc()
}

// optional restrictions a check may place on the shared generators (nil = everything)
var (
	genSeedFilter   func(s seed) bool
	genHeaderFilter func(pt, cnt int) bool
)

// byteSink receives the enumerated byte strings. all: every entry point;
// near: the datagram decoder and the seed's own decoder; addressed: the
// entries a header with this packet type addresses plus the type-less ones.
type byteSink interface {
	all(b []byte)
	near(typ string, b []byte)
	addressed(pt int, b []byte)
}

// (a case is one input; it is non-trivial once it has been executed under the three oracles)
func (x *c01) all(b []byte) {
	for i := range Entries {
		x.call(&Entries[i], b)
	}
	x.c.NT()
}

func (x *c01) near(typ string, b []byte) {
	x.call(&Entries[0], b)
	if e := EntryByName("own:" + typ); e != nil {
		x.call(e, b)
	}
	x.c.NT()
}

func (x *c01) addressed(pt int, b []byte) {
	for i := range Entries {
		if e := &Entries[i]; e.PT == pt || e.PT == -1 {
			x.call(e, b)
		}
	}
	x.c.NT()
}

func runC01(c *bx.Ctx) {
	x := &c01{c: c}
	x.last = x.totalAlloc()
	if !c.Instr {
		c.Note("statement-instrumented build unavailable: the step-budget clause is replaced by the driver's process watchdog")
	}
	only := os.Getenv("VERIF_SPACES") // debugging aid: restrict to some spaces
	run := func(name string, f func(*bx.Ctx, byteSink)) {
		if only == "" || strings.Contains(only, name) {
			t0 := time.Now()
			f(c, x)
			x.flush()
			c.Count("cpu-ms:"+name, time.Since(t0).Milliseconds())
		}
	}
	run("S1", genS1)
	run("S2", genS2)
	run("S3", genS3)
	run("S4", genS4)
}

// S1: all short byte strings.
func genS1(c *bx.Ctx, x byteSink) {
	c.Space("S1-short-strings")
	run := x.all
	if c.Mine() {
		run(nil)
	}
	for a := 0; a < 256; a++ {
		if c.Mine() {
			run([]byte{byte(a)})
		}
		for b := 0; b < 256; b++ {
			if c.Thorough() {
				if !c.MineBlock(257) {
					continue
				}
				if c.Expired() {
					return
				}
				run([]byte{byte(a), byte(b)})
				for d := 0; d < 256; d++ {
					run([]byte{byte(a), byte(b), byte(d)})
				}
			} else if c.Mine() {
				run([]byte{byte(a), byte(b)})
			}
		}
	}
}

var wrapLens = func() []int {
	var out []int
	for i := 0; i <= 12; i++ {
		out = append(out, i)
	}
	for _, r := range [][2]int{{16382, 16388}, {32766, 32770}, {49150, 49154}, {65533, 65535}} {
		for v := r[0]; v <= r[1]; v++ {
			out = append(out, v)
		}
	}
	return out
}()

// S2: header x length lattice.
func genS2(c *bx.Ctx, x byteSink) {
	c.Space("S2-header-length-lattice")
	counts := []int{0, 1, 2, 4, 5, 11, 15, 30, 31}
	if c.Thorough() {
		counts = counts[:0]
		for i := 0; i < 32; i++ {
			counts = append(counts, i)
		}
	}
	pts := []int{200, 201, 202, 203, 204, 205, 206, 207, 0, 192, 199, 208, 255}
	// bodies: 00.., ff.., ramp, and a plausible typed body (REMB-like words repeated)
	const maxBuf = 262144 + 16
	bodies := make([][]byte, 4)
	for k := range bodies {
		bodies[k] = make([]byte, maxBuf)
	}
	for i := 0; i < maxBuf; i++ {
		bodies[1][i] = 0xff
		bodies[2][i] = byte(i)
	}
	typed := []byte{0x90, 0x2f, 0x9e, 0x2e, 0, 0, 0, 0, 'R', 'E', 'M', 'B', 1, 0x12, 0x34, 0x56, 0x00, 0x01, 0x20, 0x01, 0x81, 0x05, 0x00, 0x02}
	for i := 0; i < maxBuf; i++ {
		bodies[3][i] = typed[i%len(typed)]
	}
	buf := make([]byte, maxBuf)
	for _, pt := range pts {
		for _, cnt := range counts {
			if genHeaderFilter != nil && !genHeaderFilter(pt, cnt) {
				continue
			}
			for _, hl := range wrapLens {
				if !c.MineBlock(0) {
					continue
				}
				if c.Expired() {
					return
				}
				bigHL := hl > 12
				if bigHL && !c.Thorough() && cnt == 30 {
					continue
				}
				// buffer lengths
				lens := map[int]bool{}
				step := 4
				if c.Thorough() {
					step = 1
				}
				for l := 0; l <= 20; l++ {
					lens[l] = true
				}
				for l := 20; l <= 48; l += step {
					lens[l] = true
				}
				for _, d := range []int{-4, -1, 0, 1, 4} {
					if l := 4*(hl+1) + d; l >= 0 && l < maxBuf {
						lens[l] = true
					}
				}
				for l := range lens {
					for k := range bodies {
						if l > 4096 && !c.Thorough() && k != 0 && k != 3 {
							continue
						}
						n := l
						copy(buf, bodies[k][:n])
						for p := 0; p < 2; p++ {
							if l > 4096 && !c.Thorough() && p == 1 {
								continue
							}
							for _, ver := range []int{2, 0, 1, 3} {
								if ver != 2 && !(k == 0 && p == 0) {
									continue // V != 2 once per shape
								}
								if n >= 1 {
									buf[0] = byte(ver<<6 | p<<5 | cnt)
								}
								if n >= 2 {
									buf[1] = byte(pt)
								}
								if n >= 3 {
									buf[2] = byte(hl >> 8)
								}
								if n >= 4 {
									buf[3] = byte(hl)
								}
								c.Add(1)
								if n > 4096 {
									// large buffers only to the entries this header addresses, dgram and the containers
									x.addressed(pt, buf[:n])
									continue
								}
								x.all(buf[:n])
							}
						}
					}
				}
			}
		}
	}
}

var boundaryBytes = []byte{0x00, 0x01, 0x02, 0x7f, 0x80, 0x81, 0xfe, 0xff}

// S3: deviation neighbourhood of valid encodings.
func genS3(c *bx.Ctx, x byteSink) {
	c.Space("S3-seed-neighbourhood")
	seeds := byteSeeds(c.Thorough())
	c.Note(fmt.Sprintf("S3 seeds: %d", len(seeds)))
	for _, s := range seeds {
		if genSeedFilter != nil && !genSeedFilter(s) {
			continue
		}
		typ := s.typ
		sendNear := func(b []byte) { x.near(typ, b) }
		sendAll := x.all
		n := len(s.b)
		ctl := map[int]bool{}
		for _, o := range s.ctl {
			ctl[o] = true
		}
		buf := make([]byte, n+8)
		// k=0: the seed itself to every entry
		if c.Mine() {
			sendAll(s.b)
		}
		// k=1: every position x 256 values
		for pos := 0; pos < n; pos++ {
			if n > 300 && pos >= 64 && pos < n-16 && !ctl[pos] {
				continue
			}
			if !c.MineBlock(256) {
				continue
			}
			if c.Expired() {
				return
			}
			copy(buf, s.b)
			for v := 0; v < 256; v++ {
				buf[pos] = byte(v)
				if pos < 24 || ctl[pos] {
					sendAll(buf[:n])
				} else {
					sendNear(buf[:n])
				}
			}
		}
		// every prefix, with and without the header length re-fitted
		for l := 0; l <= n; l++ {
			if n > 300 && l >= 64 && l < n-16 && l%4 != 0 {
				continue
			}
			if !c.MineBlock(2) {
				continue
			}
			copy(buf, s.b)
			sendAll(buf[:l])
			if l >= 4 {
				binary.BigEndian.PutUint16(buf[2:], uint16((l+3)/4-1))
				sendAll(buf[:l])
			}
		}
		// extensions by 1..8 octets of 00 / ff, with and without re-fit
		for ext := 1; ext <= 8; ext++ {
			if !c.MineBlock(4) {
				continue
			}
			for _, fill := range []byte{0x00, 0xff} {
				copy(buf, s.b)
				for i := 0; i < ext; i++ {
					buf[n+i] = fill
				}
				sendAll(buf[:n+ext])
				if n >= 4 {
					binary.BigEndian.PutUint16(buf[2:], uint16((n+ext+3)/4-1))
					sendAll(buf[:n+ext])
				}
			}
		}
		// structure-aware second deviations: the padding flag together with every value of the last
		// octet (the RTCP padding count), and for representative seeds the whole first octet crossed
		// with the last octet and with the low octet of the length field
		if n >= 4 {
			if c.MineBlock(0) {
				copy(buf, s.b)
				buf[0] |= 0x20
				for v := 0; v < 256; v++ {
					buf[n-1] = byte(v)
					c.Add(1)
					sendAll(buf[:n])
				}
			}
			if s.rep {
				for b0 := 0; b0 < 256; b0++ {
					if !c.MineBlock(0) {
						continue
					}
					if c.Expired() {
						return
					}
					for _, o := range []int{n - 1, 3} {
						copy(buf, s.b)
						buf[0] = byte(b0)
						for v := 0; v < 256; v++ {
							buf[o] = byte(v)
							c.Add(1)
							sendNear(buf[:n])
						}
					}
				}
			}
		}
		// 16-bit control fields x all 65536 values
		if s.rep || (c.Thorough() && n <= 256) {
			seen := map[int]bool{}
			for _, o := range append([]int{2, 0}, s.ctl...) {
				o &^= 1
				if o+1 >= n || seen[o] {
					continue
				}
				seen[o] = true
				for hi := 0; hi < 256; hi++ {
					if !c.MineBlock(0) {
						continue
					}
					if c.Expired() {
						return
					}
					copy(buf, s.b)
					buf[o] = byte(hi)
					hiBoundary := bytes.IndexByte(boundaryBytes, byte(hi)) >= 0
					for lo := 0; lo < 256; lo++ {
						if !c.Thorough() && !hiBoundary && bytes.IndexByte(boundaryBytes, byte(lo)) < 0 {
							continue // quick: full sweep of each octet crossed with boundary values of the other
						}
						buf[o+1] = byte(lo)
						c.Add(1)
						sendNear(buf[:n])
					}
				}
			}
		}
		// k=2: pairs of control-region positions x boundary bytes
		if s.rep || (c.Thorough() && n <= 128) {
			var region []int
			for p := 0; p < n && p < 24; p++ {
				region = append(region, p)
			}
			for _, o := range s.ctl {
				if o >= 24 && o < n {
					region = append(region, o)
				}
			}
			for i := 0; i < len(region); i++ {
				for j := i + 1; j < len(region); j++ {
					if !c.MineBlock(64) {
						continue
					}
					if c.Expired() {
						return
					}
					copy(buf, s.b)
					for _, a := range boundaryBytes {
						for _, b := range boundaryBytes {
							buf[region[i]], buf[region[j]] = a, b
							sendNear(buf[:n])
						}
					}
				}
			}
		}
	}
}

// S4: amplification templates.
func genS4(c *bx.Ctx, x byteSink) {
	c.Space("S4-amplification-templates")
	for _, t := range amplificationTemplates() {
		if !c.Mine() {
			continue
		}
		if c.Expired() {
			return
		}
		x.all(t.b)
		c.Sample(func() interface{} { return map[string]interface{}{"template": t.name, "octets": len(t.b)} })
	}
}

type tmpl struct {
	name string
	b    []byte
}

// amplificationTemplates: type x maximal count field x repeat unit x size.
func amplificationTemplates() []tmpl {
	var out []tmpl
	sizes := []int{0, 8, 9, 64, 1200, 1500, 65532, 262144}
	mk := func(name string, head []byte, unit []byte, tail []byte, fitLen bool) {
		for _, sz := range sizes {
			b := append([]byte{}, head...)
			if sz <= 64 {
				for i := 0; i < sz; i++ {
					b = append(b, unit...)
				}
			} else {
				for len(b)+len(unit)+len(tail) <= sz {
					b = append(b, unit...)
				}
			}
			b = append(b, tail...)
			for len(b)%4 != 0 {
				b = append(b, 0)
			}
			if fitLen && len(b) >= 4 {
				w := len(b)/4 - 1
				if w > 65535 {
					w = 65535
				}
				binary.BigEndian.PutUint16(b[2:], uint16(w))
			}
			out = append(out, tmpl{fmt.Sprintf("%s x(size %d)", name, sz), b})
		}
	}
	twcc := func(count uint16) []byte {
		h := []byte{0x8f, 205, 0, 0, 1, 2, 3, 4, 5, 6, 7, 8, 0, 1}
		h = append(h, byte(count>>8), byte(count), 0, 0, 1, 0)
		return h
	}
	for _, cnt := range []uint16{65535, 65534, 32768, 8191, 14, 1} {
		for sym := 0; sym < 4; sym++ {
			for _, rl := range []uint16{8191, 1, 0, 4095} {
				w := uint16(sym)<<13 | rl
				mk(fmt.Sprintf("TWCC count=%d run-length sym=%d len=%d", cnt, sym, rl), twcc(cnt), []byte{byte(w >> 8), byte(w)}, nil, true)
			}
		}
		for _, w := range []uint16{0x8000, 0xbfff, 0xc000, 0xd555, 0xeaaa, 0xffff, 0x9555} {
			mk(fmt.Sprintf("TWCC count=%d vector=%04x", cnt, w), twcc(cnt), []byte{byte(w >> 8), byte(w)}, nil, true)
		}
		// run-length chunks landing just below the count, then a vector chunk (the counter-wrap pattern)
		mk(fmt.Sprintf("TWCC count=%d wrap-pattern", cnt), twcc(cnt), []byte{0x3f, 0xff, 0x3f, 0xff, 0x3f, 0xff, 0x3f, 0xff, 0x3f, 0xff, 0x3f, 0xff, 0x3f, 0xff, 0x3f, 0xf8, 0xbf, 0xff}, nil, true)
	}
	// CCFB
	for _, nr := range []uint16{65535, 16384, 16383, 1, 0} {
		mk(fmt.Sprintf("CCFB num_reports=%d empty blocks", nr), []byte{0x8b, 205, 0, 0, 1, 2, 3, 4}, []byte{9, 9, 9, 9, 0, 1, byte(nr >> 8), byte(nr)}, []byte{0, 0, 0, 1}, true)
		mk(fmt.Sprintf("CCFB num_reports=%d one block", nr), []byte{0x8b, 205, 0, 0, 1, 2, 3, 4, 9, 9, 9, 9, 0, 1, byte(nr >> 8), byte(nr)}, []byte{0x80, 0x01}, []byte{0, 0, 0, 1}, true)
	}
	// XR
	for _, bt := range []byte{0, 1, 2, 3, 4, 5, 6, 7, 8, 255} {
		mk(fmt.Sprintf("XR 4-octet blocks bt=%d", bt), []byte{0x80, 207, 0, 0, 1, 2, 3, 4}, []byte{bt, 0, 0, 0}, nil, true)
		mk(fmt.Sprintf("XR one block bt=%d len=65535", bt), []byte{0x80, 207, 0, 0, 1, 2, 3, 4, bt, 0, 0xff, 0xff}, []byte{0x40, 0x01}, nil, true)
		mk(fmt.Sprintf("XR 16-octet blocks bt=%d", bt), []byte{0x80, 207, 0, 0, 1, 2, 3, 4}, []byte{bt, 0, 0, 3, 1, 1, 1, 1, 0, 1, 0, 9, 0x80, 1, 0x40, 2}, nil, true)
	}
	// SDES
	mk("SDES empty items", []byte{0x81, 202, 0, 0, 1, 2, 3, 4}, []byte{1, 0}, []byte{0}, true)
	mk("SDES 255-octet items", []byte{0x81, 202, 0, 0, 1, 2, 3, 4}, append([]byte{1, 255}, bytes.Repeat([]byte{'a'}, 255)...), []byte{0}, true)
	mk("SDES 31 minimal chunks", []byte{0x9f, 202, 0, 0}, []byte{1, 2, 3, 4, 0, 0, 0, 0}, nil, true)
	// reports
	mk("SR 31 reports", append([]byte{0x9f, 200, 0, 0}, make([]byte, 24)...), make([]byte, 24), nil, true)
	mk("RR 31 reports", []byte{0x9f, 201, 0, 0, 1, 2, 3, 4}, make([]byte, 24), nil, true)
	mk("BYE 31 sources", []byte{0x9f, 203, 0, 0}, []byte{1, 2, 3, 4}, nil, true)
	mk("NACK pairs", []byte{0x81, 205, 0, 0, 1, 2, 3, 4, 5, 6, 7, 8}, []byte{0, 1, 0xff, 0xff}, nil, true)
	mk("SLI entries", []byte{0x82, 205, 0, 0, 1, 2, 3, 4, 5, 6, 7, 8}, []byte{0xff, 0xff, 0xff, 0xff}, nil, true)
	mk("FIR entries", []byte{0x84, 206, 0, 0, 1, 2, 3, 4, 5, 6, 7, 8}, []byte{1, 1, 1, 1, 7, 0, 0, 0}, nil, true)
	mk("REMB 255 ssrcs", []byte{0x8f, 206, 0, 0, 1, 2, 3, 4, 0, 0, 0, 0, 'R', 'E', 'M', 'B', 255, 0xff, 0xff, 0xff}, []byte{1, 2, 3, 4}, nil, true)
	mk("APP data", []byte{0x80, 204, 0, 0, 1, 2, 3, 4, 'a', 'b', 'c', 'd'}, []byte{1, 2, 3, 4}, nil, true)
	mk("raw 4-octet frames", nil, []byte{0x80, 192, 0, 0}, nil, false)
	mk("PLI frames", nil, []byte{0x81, 206, 0, 2, 1, 2, 3, 4, 5, 6, 7, 8}, nil, false)
	mk("length-65535 header", []byte{0x80, 200, 0xff, 0xff}, []byte{0, 0, 0, 0}, nil, false)
	return out
}
