package props

import "encoding/hex"

func hexDecode(s string) ([]byte, error) { return hex.DecodeString(s) }
