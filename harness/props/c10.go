package props

import (
	"fmt"

	"github.com/pion/rtcp"

	"verif/bx"
	"verif/ref"
)

// C10 — DestinationSSRC lists exactly the SSRCs the packet refers to.

func init() {
	register(&Prop{ID: "C10", Run: runC10,
		Rule: "every value of D built in memory, and the packets obtained from the type's own decoder and from the datagram decoder applied to its Marshal output; SSRC fields carry distinct tagged values. Non-trivial = list of >= 1 SSRC compared in all three forms",
		Assumptions: []string{
			"the reference list (harness/ref/equal.go DestSSRC) is written from the property statement",
			"where the current tree cannot round-trip a value (a C02 finding) only the in-memory form is compared",
		},
		BoundsQuick:    "D quick incl. empty and maximal (31 / 255) lists, compounds of <= 6 members",
		BoundsThorough: "D thorough",
	})
}

func u32eq(a, b []uint32) bool {
	if len(a) != len(b) {
		return false
	}
	for i := range a {
		if a[i] != b[i] {
			return false
		}
	}
	return true
}

func safeDest(p rtcp.Packet) (out []uint32, pan string) {
	msg, panicked := bx.Guard(func() { out = p.DestinationSSRC() })
	if panicked {
		return nil, msg
	}
	return out, ""
}

func runC10(c *bx.Ctx) {
	c.Space("D")
	forD(c, func(v ref.V) { c10One(c, v) })
	// values in which two SSRC-like fields coincide (duplicate list entries, sender == media, ...)
	c.Space("coinciding-ssrcs")
	for _, b := range ref.Builders(c.Thorough()) {
		ref.Aliased(b, func() bool { return c.MineBlock(0) }, func(v ref.V) bool {
			c.Add(1)
			c10One(c, v)
			return !c.Expired()
		})
	}
}

func c10One(c *bx.Ctx, v ref.V) {
	{
		want := ref.DestSSRC(v.P)
		got, pan := safeDest(v.P)
		c.T(1)
		if pan != "" || !u32eq(got, want) {
			c.Report(keyJoin("C10", v.Type, "built"), "DestinationSSRC of a packet built in memory differs from the documented list",
				bx.Replay{Entry: "DestinationSSRC", Value: valueString(v), ValueGob: valueGob(v), Expected: fmt.Sprintf("%x", want), Observed: fmt.Sprintf("%x %s", got, pan)})
			return
		}
		b, err, pan := safeMarshal(v.P)
		c.T(1)
		if pan != "" || err != nil {
			c.Count("marshal-failed", 1)
			return
		}
		full := true
		if q, err, pan := safeOwn(v.Type, append([]byte{}, b...)); pan == "" && err == nil {
			if _, same := ref.Equal(quantise(v.P), q); same {
				got, pan := safeDest(q)
				c.T(2)
				if pan != "" || !u32eq(got, want) {
					c.Report(keyJoin("C10", v.Type, "own-decoded"), "DestinationSSRC changes after an encode/decode round trip (own decoder)",
						bx.Replay{Entry: "Marshal+own+DestinationSSRC", Value: valueString(v), ValueGob: valueGob(v), Expected: fmt.Sprintf("%x", want), Observed: fmt.Sprintf("%x %s", got, pan)})
					return
				}
			} else {
				full = false
			}
		} else {
			full = false
		}
		if ps, err, pan := safeDgram(append([]byte{}, b...)); pan == "" && err == nil && len(ps) >= 1 {
			first := ps[0]
			exp := want
			if cp, ok := v.P.(*rtcp.CompoundPacket); ok {
				exp = ref.DestSSRC((*cp)[0])
			} else if len(ps) != 1 || TypeName(first) != v.Type {
				full = false
				first = nil
			}
			if first != nil {
				if _, same := ref.Equal(quantise(v.P), first); !same && v.Type != "CompoundPacket" {
					full = false
					first = nil
				}
			}
			if first != nil {
				got, pan := safeDest(first)
				c.T(2)
				if pan != "" || !u32eq(got, exp) {
					c.Report(keyJoin("C10", v.Type, "dgram-decoded"), "DestinationSSRC changes after an encode/decode round trip (datagram decoder)",
						bx.Replay{Entry: "Marshal+dgram+DestinationSSRC", Value: valueString(v), ValueGob: valueGob(v), Expected: fmt.Sprintf("%x", exp), Observed: fmt.Sprintf("%x %s", got, pan)})
					return
				}
			}
		} else {
			full = false
		}
		if !full {
			c.Count("round-trip-unavailable", 1)
		}
		if full && len(want) > 0 {
			c.NT()
		}
		c.Sample(func() interface{} { return map[string]string{"value": v.String(), "ssrcs": fmt.Sprintf("%x", want)} })
	}
}
