package props

import (
	"encoding/json"
	"fmt"
	"os"
	"time"

	"verif/bx"
	"verif/ref"
)

// RunReplay re-executes one replay file without the explorer.
func RunReplay(path string) int {
	b, err := os.ReadFile(path)
	if err != nil {
		fmt.Println("cannot read replay:", err)
		return 2
	}
	var rp bx.Replay
	if err := json.Unmarshal(b, &rp); err != nil {
		fmt.Println("cannot parse replay:", err)
		return 2
	}
	fmt.Printf("replay property=%s key=%s entry=%s\n", rp.Property, rp.Key, rp.Entry)
	obs := replayOne(rp)
	fmt.Println("expected:", rp.Expected)
	fmt.Println("recorded:", rp.Observed)
	fmt.Println("observed:", obs)
	if obs == rp.Observed {
		fmt.Println("REPRODUCED")
		return 1
	}
	fmt.Println("NOT-REPRODUCED (observation differs from the recorded one)")
	return 0
}

func replayOne(rp bx.Replay) string {
	if e := EntryByName(rp.Entry); e != nil && rp.InputHex != "" || rp.Entry == "dgram" {
		in, err := hexDecode(rp.InputHex)
		if err != nil {
			return "bad input_hex: " + err.Error()
		}
		var v interface{}
		var derr error
		msg, pan := bx.Guard(func() { v, derr = EntryByName(rp.Entry).Fn(in) })
		if pan {
			return "panic: " + msg
		}
		if derr != nil {
			return "error: " + derr.Error()
		}
		return fmt.Sprintf("%+v", v)
	}
	if rp.ValueGob != "" {
		if v, err := valueFromGob(rp.ValueGob); err == nil {
			return replayValue(rp, v)
		}
	}
	if f := replayers[rp.Property]; f != nil {
		return f(rp)
	}
	// cheap properties: re-run the whole (quick) exploration in this process and look for the key
	switch rp.Property {
	case "C06", "C07", "C08", "C11", "C12", "C14", "C15", "C16":
		if p := Lookup(rp.Property); p != nil {
			c := bx.New(rp.Property, "quick", 0, 1, 0, time.Time{})
			SetCtx(c)
			p.Run(c)
			for _, f := range c.Result().Findings {
				if f.Key == rp.Key {
					return rp.Observed
				}
			}
			return "finding " + rp.Key + " does not fire when the quick exploration is re-run"
		}
	case "C18":
		if rp.Entry == "schedule" {
			return replayC18Schedule(rp)
		}
		if rp.Entry == "cold-start-audit" {
			// the replayer is a fresh process: nothing has called into package rtcp yet
			if !InstrBuild {
				return "(the cold-start audit needs the instrumented build)"
			}
			c := bx.New("C18", "quick", 0, 1, 0, time.Time{})
			SetCtx(c)
			c18ColdAudit(c)
			for _, f := range c.Result().Findings {
				if f.Key == rp.Key {
					return rp.Observed
				}
			}
			return "finding " + rp.Key + " does not fire when the cold-start audit is re-run"
		}
	}
	return "(replay of this entry kind is not automated; the file holds the value / operation list to re-run by hand)"
}

var replayers = map[string]func(bx.Replay) string{}

// replayValue re-runs the property's per-value oracle on the stored value and reports whether
// the recorded finding class fires again.
func replayValue(rp bx.Replay, v ref.V) string {
	c := bx.New(rp.Property, "quick", 0, 1, 0, time.Time{})
	switch rp.Property {
	case "C02":
		c02One(c, v)
	case "C03":
		// same oracle as the sweep: compare with the reference encoding
		opt, _, _ := ccfbReading()
		b, err, pan := safeMarshal(v.P)
		w, rerr := ref.Encode(v.P, opt)
		return fmt.Sprintf("marshal=%x err=%v panic=%q reference=%x referr=%v", b, err, pan, wBytes(w), rerr)
	case "C04":
		opt, _, _ := ccfbReading()
		if w, err := ref.Encode(v.P, opt); err == nil {
			c04Decode(c, v.Type, w.B, quantise(v.P), false, keyJoin("C04", v.Type, "canonical"), v.String(), shapeClass(v.P))
		}
	case "C05":
		c05One(c, v)
	case "C10":
		c10One(c, v)
	case "C17":
		c17Format(c, v.Type, v.P, func() bx.Replay { return bx.Replay{} })
	default:
		return "(no value replayer for " + rp.Property + ")"
	}
	res := c.Result()
	for _, f := range res.Findings {
		if f.Key == rp.Key {
			return rp.Observed // the same finding class fires with the same observation class
		}
	}
	keys := []string{}
	for _, f := range res.Findings {
		keys = append(keys, f.Key)
	}
	return fmt.Sprintf("finding %s does not fire; findings now: %v", rp.Key, keys)
}

func wBytes(w *ref.W) []byte {
	if w == nil {
		return nil
	}
	return w.B
}
