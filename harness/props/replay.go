package props

import (
	"encoding/json"
	"fmt"
	"os"

	"verif/bx"
)

// RunReplay re-executes one replay file without the explorer.
func RunReplay(path string) int {
	b, err := os.ReadFile(path)
	if err != nil {
		fmt.Println("cannot read replay:", err)
		return 2
	}
	var rp bx.Replay
	if err := json.Unmarshal(b, &rp); err != nil {
		fmt.Println("cannot parse replay:", err)
		return 2
	}
	fmt.Printf("replay property=%s key=%s entry=%s\n", rp.Property, rp.Key, rp.Entry)
	obs := replayOne(rp)
	fmt.Println("expected:", rp.Expected)
	fmt.Println("recorded:", rp.Observed)
	fmt.Println("observed:", obs)
	if obs == rp.Observed {
		fmt.Println("REPRODUCED")
		return 1
	}
	fmt.Println("NOT-REPRODUCED (observation differs from the recorded one)")
	return 0
}

func replayOne(rp bx.Replay) string {
	if e := EntryByName(rp.Entry); e != nil && rp.InputHex != "" || rp.Entry == "dgram" {
		in, err := hexDecode(rp.InputHex)
		if err != nil {
			return "bad input_hex: " + err.Error()
		}
		var v interface{}
		var derr error
		msg, pan := bx.Guard(func() { v, derr = EntryByName(rp.Entry).Fn(in) })
		if pan {
			return "panic: " + msg
		}
		if derr != nil {
			return "error: " + derr.Error()
		}
		return fmt.Sprintf("%+v", v)
	}
	if f := replayers[rp.Property]; f != nil {
		return f(rp)
	}
	return "(replay of this entry kind is not automated; the file holds the value / operation list to re-run by hand)"
}

var replayers = map[string]func(bx.Replay) string{}
