//go:build verifinstr

package props

import (
	"github.com/pion/rtcp/verifrt"

	"verif/sched"
)

func init() {
	InstrBuild = true
	stepsGet = func() int64 { return verifrt.Steps }
	stepsSetBudget = func(n int64) { verifrt.Steps = 0; verifrt.Budget = n }
	setHook = func(f func()) {
		verifrt.Hook = f
		if f != nil {
			verifrt.BlockHook = sched.Blocked
		} else {
			verifrt.BlockHook = nil
		}
	}
	CoverageGet = func() []uint8 { return verifrt.Hits[:] }
	syncDepthGet = func() int { return verifrt.SyncDepth }
	rawHookSet = func(f func()) { verifrt.Hook = f }
}
