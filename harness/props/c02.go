package props

import (
	"bytes"
	"fmt"

	"github.com/pion/rtcp"

	"verif/bx"
	"verif/ref"
)

// C02 — encode-then-decode returns the original packet for every well-formed value.

func init() {
	register(&Prop{ID: "C02", Run: runC02,
		Rule: "every value of the well-formed domain D (type x structural shape x 0/1/2 fields off a tagged base, each deviating field sweeping its alphabet) and every list of <=k packets over a representative alphabet; distinct by construction. Non-trivial = Marshal succeeded and both decoders were compared field by field",
		Assumptions: []string{
			"semantic equality: nil == empty slice; XRHeader of the 7 defined XR block kinds is a derived wire artefact; the three documented quantisations are applied to the expected value",
			"NACK/FIR/SLI values carry >= 1 entry; RawPacket values are well-framed with an unregistered (PT,FMT); for a CompoundPacket the datagram decoder returns the members",
			"copied scalars are data-independent: alphabets are boundary values + walking ones, not the full 2^32",
		},
		BoundsQuick:    "D quick (counts 0,1,2,3,31; texts 0..9,254,255; see DESIGN 3.2), 1 field off base; lists of length <= 3 over a 24-packet alphabet",
		BoundsThorough: "D thorough (counts 0..5,30,31; texts 0..17,253..255; complete domains for fields <= 13 bits), 2 fields off base on shapes with <= 24 leaves; lists of length <= 4",
	})
}

func runC02(c *bx.Ctx) {
	c.Space("D")
	forD(c, func(v ref.V) { c02One(c, v) })
	c.Space("delta-quantisation")
	c02DeltaQuant(c)
	c.Space("lists")
	c02Lists(c)
	c.Space("NewCNAMESourceDescription")
	for _, ssrc := range ssrcAlphabet {
		for _, l := range []int{0, 1, 2, 3, 4, 5, 9, 254, 255} {
			if !c.Mine() {
				continue
			}
			txt := ref.NewTagger().Text(l)
			p := rtcp.NewCNAMESourceDescription(ssrc, txt)
			want := &rtcp.SourceDescription{Chunks: []rtcp.SourceDescriptionChunk{{Source: ssrc, Items: []rtcp.SourceDescriptionItem{{Type: rtcp.SDESCNAME, Text: txt}}}}}
			c.T(1)
			if path, ok := ref.Equal(want, p); !ok {
				c.Report("C02/NewCNAMESourceDescription/value", "NewCNAMESourceDescription does not build a single CNAME chunk: "+path, bx.Replay{Entry: "NewCNAMESourceDescription", Value: fmt.Sprintf("%#x %q", ssrc, txt), Expected: ref.Dump(want), Observed: ref.Dump(p)})
				continue
			}
			c02One(c, ref.V{P: p, Type: "SourceDescription", Shape: fmt.Sprintf("NewCNAME,text=%d", l)})
		}
	}
}

func c02One(c *bx.Ctx, v ref.V) {
	cls := shapeClass(v.P)
	want := quantise(v.P)
	rp := func(entry, exp, obs string) bx.Replay {
		return bx.Replay{Entry: entry, Value: valueString(v), ValueGob: valueGob(v), Expected: exp, Observed: obs}
	}
	b, err, pan := safeMarshal(v.P)
	c.T(1)
	if pan != "" {
		c.Report(keyJoin("C02", v.Type, "marshal", "panic", cls), "Marshal panics on a well-formed value", rp("Marshal", "bytes", "panic: "+pan))
		return
	}
	if err != nil {
		c.Report(keyJoin("C02", v.Type, "marshal", "error", cls), "Marshal fails on a well-formed value", rp("Marshal", "bytes", "error: "+err.Error()))
		return
	}
	b = append([]byte{}, b...)
	c.Sample(func() interface{} { return map[string]string{"value": v.String(), "wire": bx.Short(b)} })
	// own decoder
	q, err, pan := safeOwn(v.Type, b)
	c.T(1)
	switch {
	case pan != "":
		c.Report(keyJoin("C02", v.Type, "own", "panic", cls), "the type's own decoder panics on Marshal output", rp("Marshal+own", "equal value", "panic: "+pan+" wire="+bx.Short(b)))
	case err != nil:
		c.Report(keyJoin("C02", v.Type, "own", "error", cls), "the type's own decoder rejects Marshal output", rp("Marshal+own", "equal value", "error: "+err.Error()+" wire="+bx.Short(b)))
	default:
		if path, ok := ref.Equal(want, q); !ok {
			c.Report(keyJoin("C02", v.Type, "own", "differs", bx.NormPath(path), cls), "own decoder returns a different value at "+path, rp("Marshal+own", ref.Dump(want), ref.Dump(q)))
		} else {
			// re-marshal reproduces the bytes
			b2, err, pan := safeMarshal(q)
			c.T(1)
			if pan != "" || err != nil || !bytes.Equal(b2, b) {
				c.Report(keyJoin("C02", v.Type, "own", "remarshal", cls), "re-marshalling the decoded packet does not reproduce the bytes", rp("Marshal+own+Marshal", bx.Short(b), fmt.Sprintf("%s %v %s", bx.Short(b2), err, pan)))
			}
		}
	}
	// datagram decoder
	ps, err, pan := safeDgram(b)
	c.T(1)
	var members []rtcp.Packet
	if cp, ok := want.(*rtcp.CompoundPacket); ok {
		members = []rtcp.Packet(*cp)
	} else {
		members = []rtcp.Packet{want}
	}
	switch {
	case pan != "":
		c.Report(keyJoin("C02", v.Type, "dgram", "panic", cls), "rtcp.Unmarshal panics on Marshal output", rp("Marshal+dgram", "equal value", "panic: "+pan+" wire="+bx.Short(b)))
	case err != nil:
		c.Report(keyJoin("C02", v.Type, "dgram", "error", cls), "rtcp.Unmarshal rejects Marshal output", rp("Marshal+dgram", "equal value", "error: "+err.Error()+" wire="+bx.Short(b)))
	case len(ps) != len(members):
		c.Report(keyJoin("C02", v.Type, "dgram", "count", cls), "rtcp.Unmarshal returns a different number of packets", rp("Marshal+dgram", fmt.Sprint(len(members)), fmt.Sprint(len(ps))))
	default:
		good := true
		for i := range ps {
			if TypeName(ps[i]) != TypeName(members[i]) {
				c.Report(keyJoin("C02", v.Type, "dgram", "type", TypeName(members[i])+"-as-"+TypeName(ps[i]), cls), "rtcp.Unmarshal returns a different concrete type", rp("Marshal+dgram", TypeName(members[i]), TypeName(ps[i])+" wire="+bx.Short(b)))
				good = false
				break
			}
			if path, ok := ref.Equal(members[i], ps[i]); !ok {
				c.Report(keyJoin("C02", v.Type, "dgram", "differs", bx.NormPath(path), cls), "rtcp.Unmarshal returns a different value at "+path, rp("Marshal+dgram", ref.Dump(members[i]), ref.Dump(ps[i])))
				good = false
				break
			}
		}
		if good {
			var b2 []byte
			var err error
			msg, panicked := bx.Guard(func() { b2, err = rtcp.Marshal(ps) })
			c.T(1)
			if panicked || err != nil || !bytes.Equal(b2, b) {
				c.Report(keyJoin("C02", v.Type, "dgram", "remarshal", cls), "re-marshalling the decoded packets does not reproduce the bytes", rp("Marshal+dgram+Marshal", bx.Short(b), fmt.Sprintf("%s %v %s", bx.Short(b2), err, msg)))
			} else {
				c.NT()
			}
		}
	}
}

// TWCC deltas that are not multiples of 250 us: the decoded value must be a
// multiple of 250 within 250 us of the original.
func c02DeltaQuant(c *bx.Ctx) {
	for _, typ := range []uint8{ref.StSmall, ref.StLarge} {
		for _, base := range []int64{0, 250, 63500, 63750, -250, -8192000, 8191750, 1000} {
			for off := int64(-249); off <= 249; off++ {
				if !c.Mine() {
					continue
				}
				d := base + off
				if typ == ref.StSmall && (d < 0 || d > 63750+249) {
					continue
				}
				if d/250 > 32767 || d/250 < -32768 || (typ == ref.StSmall && d/250 > 255) {
					continue
				}
				spec := ref.TWCCSpec{Sender: 1, Media: 2, BaseSeq: 3, RefTime: 4, FbCount: 5, Statuses: []uint8{typ}, Ticks: []int64{d / 250}, Chunks: ref.GreedyChunking([]uint8{typ})}
				p := spec.Packet()
				p.RecvDeltas[0].Delta = d
				b, err, pan := safeMarshal(p)
				c.T(1)
				if pan != "" || err != nil {
					c.Report("C02/TransportLayerCC/delta-quantisation/marshal", "Marshal fails on an in-range delta that is not a multiple of 250us",
						bx.Replay{Entry: "Marshal", Value: fmt.Sprintf("type=%d delta=%d", typ, d), Expected: "bytes", Observed: fmt.Sprint(err, pan)})
					continue
				}
				q, err, pan := safeOwn("TransportLayerCC", b)
				c.T(1)
				ok := pan == "" && err == nil
				if ok {
					t := q.(*rtcp.TransportLayerCC)
					ok = len(t.RecvDeltas) == 1 && t.RecvDeltas[0].Delta%250 == 0 && abs64(t.RecvDeltas[0].Delta-d) < 250
				}
				if !ok {
					c.Report("C02/TransportLayerCC/delta-quantisation/value", "decoded delta is not a multiple of 250us within 250us of the original",
						bx.Replay{Entry: "Marshal+own", Value: fmt.Sprintf("type=%d delta=%d", typ, d), Expected: "multiple of 250 within 250us", Observed: fmt.Sprintf("%s %v %s", ref.Dump(q), err, pan)})
					continue
				}
				c.NT()
			}
		}
	}
}

func abs64(x int64) int64 {
	if x < 0 {
		return -x
	}
	return x
}

// listAlphabet: one or two representatives per type.
func listAlphabet() []func() rtcp.Packet {
	var out []func() rtcp.Packet
	want := map[string]int{
		"SenderReport/reports=2,ext=4": 1, "SenderReport/reports=0,ext=0": 1, "ReceiverReport/reports=1,ext=0": 1, "ReceiverReport/reports=0,ext=4": 1,
		"SourceDescription/chunks=2,items=2,rot=1": 1, "SourceDescription/chunks=1,items=1,text=5": 1, "Goodbye/sources=2,reason=5": 1, "Goodbye/sources=0,reason=0": 1,
		"ApplicationDefined/data=5": 1, "ApplicationDefined/data=8": 1, "TransportLayerNack/pairs=2": 1, "RapidResynchronizationRequest/": 1, "PictureLossIndication/": 1,
		"FullIntraRequest/entries=2": 1, "ReceiverEstimatedMaximumBitrate/ssrcs=2": 1, "CCFeedbackReport/blocks=2,metrics=2,begin=-1": 1, "CCFeedbackReport/blocks=0,metrics=0,begin=-1": 1,
		"TransportLayerCC/seq=7,chunking=rl,pbit=false": 1, "TransportLayerCC/seq=8,chunking=v2,pbit=true": 1, "ExtendedReport/blocks=all-kinds": 1, "ExtendedReport/blocks=1:DLRR,reports=2": 1,
		"RawPacket/pt=192,fmt=1,words=2,p=false": 1, "RawPacket/pt=205,fmt=31,words=1,p=false": 1, "RawPacket/pt=0,fmt=0,words=0,p=false": 1,
	}
	for _, b := range ref.Builders(false) {
		if want[b.Type+"/"+b.Shape] == 1 {
			out = append(out, b.Make)
		}
	}
	return out
}

func c02Lists(c *bx.Ctx) {
	alpha := listAlphabet()
	if len(alpha) != 24 {
		c.Note(fmt.Sprintf("list alphabet has %d elements (24 expected)", len(alpha)))
	}
	// per-element reference decode
	maxLen := 3
	if c.Thorough() {
		maxLen = 4
	}
	idx := make([]int, 0, maxLen)
	var rec func()
	run := func() {
		var ps []rtcp.Packet
		for _, i := range idx {
			ps = append(ps, alpha[i]())
		}
		var b []byte
		var err error
		msg, pan := bx.Guard(func() { b, err = rtcp.Marshal(ps) })
		c.T(1)
		desc := fmt.Sprint(idx)
		if pan || err != nil {
			c.Report("C02/list/marshal", "rtcp.Marshal fails on a list of well-formed packets", bx.Replay{Entry: "rtcp.Marshal", Ops: desc, Expected: "bytes", Observed: fmt.Sprint(err, msg)})
			return
		}
		qs, err, p2 := safeDgram(append([]byte{}, b...))
		c.T(1)
		if p2 != "" || err != nil || len(qs) != len(ps) {
			c.Report("C02/list/dgram", "rtcp.Unmarshal(rtcp.Marshal(list)) does not return a list of the same length", bx.Replay{Entry: "rtcp.Marshal+Unmarshal", Ops: desc, Expected: fmt.Sprint(len(ps)), Observed: fmt.Sprint(len(qs), err, p2)})
			return
		}
		for i := range ps {
			if path, ok := ref.Equal(quantise(ps[i]), qs[i]); !ok {
				c.Report(keyJoin("C02/list/differs", TypeName(ps[i])), "a list element does not round-trip in order at "+path, bx.Replay{Entry: "rtcp.Marshal+Unmarshal", Ops: desc, Expected: ref.Dump(ps[i]), Observed: ref.Dump(qs[i])})
				return
			}
		}
		var b2 []byte
		msg, pan = bx.Guard(func() { b2, err = rtcp.Marshal(qs) })
		c.T(1)
		if pan || err != nil || !bytes.Equal(b, b2) {
			c.Report("C02/list/remarshal", "re-marshalling the decoded list does not reproduce the bytes", bx.Replay{Entry: "rtcp.Marshal+Unmarshal+Marshal", Ops: desc, Expected: bx.Short(b), Observed: fmt.Sprint(bx.Short(b2), err, msg)})
			return
		}
		if len(idx) >= 2 {
			c.NT()
		}
	}
	rec = func() {
		if len(idx) > 0 {
			run()
			c.Add(1)
		}
		if len(idx) == maxLen {
			return
		}
		for i := range alpha {
			idx = append(idx, i)
			rec()
			idx = idx[:len(idx)-1]
		}
	}
	for i := range alpha {
		for j := -1; j < len(alpha); j++ {
			if !c.MineBlock(0) {
				continue
			}
			if c.Expired() {
				return
			}
			if j < 0 {
				idx = append(idx[:0], i)
				run()
				c.Add(1)
				continue
			}
			idx = append(idx[:0], i, j)
			rec()
		}
	}
}
