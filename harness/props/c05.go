package props

import (
	"encoding/binary"
	"fmt"

	"github.com/pion/rtcp"

	"verif/bx"
	"verif/ref"
)

// C05 — Marshal output is well-framed and its length equals MarshalSize.

func init() {
	register(&Prop{ID: "C05", Run: runC05,
		Rule: "every value of D, plus D_ext (unaligned profile extensions, odd XR chunk counts, odd CCFB/TWCC element counts, near-limit sizes) and compounds; judged whenever Marshal returns nil. Non-trivial = Marshal succeeded and size, alignment, header octets and accessors were compared",
		Assumptions: []string{
			"the type's packet type and FMT are those of the RFCs (SLI: 206/2)",
			"TransportLayerCC and RawPacket are judged with a header consistent with the content (all TWCC values of D are)",
		},
		BoundsQuick:    "D quick + D_ext: SR/RR extensions 0..9 octets, XR RLE chunk counts 0..5, receipt times 0..3, every CCFB/TWCC parity, compounds of D",
		BoundsThorough: "D thorough + D_ext + near-limit sizes (4 CCFB blocks x 16384 metric blocks, 60000-octet XR unknown block, 31 SDES chunks of 255-octet items, APP data 65520)",
	})
}

type hdrSpec struct {
	pt    int
	count func(p rtcp.Packet) int
}

var typeHeader = map[string]hdrSpec{
	"SenderReport":                    {200, func(p rtcp.Packet) int { return len(p.(*rtcp.SenderReport).Reports) }},
	"ReceiverReport":                  {201, func(p rtcp.Packet) int { return len(p.(*rtcp.ReceiverReport).Reports) }},
	"SourceDescription":               {202, func(p rtcp.Packet) int { return len(p.(*rtcp.SourceDescription).Chunks) }},
	"Goodbye":                         {203, func(p rtcp.Packet) int { return len(p.(*rtcp.Goodbye).Sources) }},
	"ApplicationDefined":              {204, func(p rtcp.Packet) int { return int(p.(*rtcp.ApplicationDefined).SubType) }},
	"TransportLayerNack":              {205, func(rtcp.Packet) int { return 1 }},
	"RapidResynchronizationRequest":   {205, func(rtcp.Packet) int { return 5 }},
	"TransportLayerCC":                {205, func(rtcp.Packet) int { return 15 }},
	"CCFeedbackReport":                {205, func(rtcp.Packet) int { return 11 }},
	"PictureLossIndication":           {206, func(rtcp.Packet) int { return 1 }},
	"SliceLossIndication":             {206, func(rtcp.Packet) int { return 2 }},
	"FullIntraRequest":                {206, func(rtcp.Packet) int { return 4 }},
	"ReceiverEstimatedMaximumBitrate": {206, func(rtcp.Packet) int { return 15 }},
	"ExtendedReport":                  {207, func(rtcp.Packet) int { return 0 }},
}

type headerer interface{ Header() rtcp.Header }

func c05One(c *bx.Ctx, v ref.V) {
	b, err, pan := safeMarshal(v.P)
	c.T(1)
	if pan != "" {
		c.Count("marshal-panicked", 1)
		return
	}
	if err != nil {
		c.Count("marshal-refused", 1)
		return
	}
	cls := shapeClass(v.P)
	if x, ok := v.P.(*rtcp.ExtendedReport); ok {
		cls = ""
		for _, blk := range x.Reports {
			switch r := blk.(type) {
			case *rtcp.LossRLEReportBlock:
				if len(r.Chunks)%2 == 1 {
					cls = "odd-rle-chunks"
				}
			case *rtcp.DuplicateRLEReportBlock:
				if len(r.Chunks)%2 == 1 {
					cls = "odd-rle-chunks"
				}
			case *rtcp.UnknownReportBlock:
				if len(r.Bytes)%4 != 0 {
					cls = "unknown-block-unaligned-bytes"
				}
			}
		}
	}
	rp := func(exp, obs string) bx.Replay {
		return bx.Replay{Entry: "Marshal/MarshalSize/Header", Value: valueString(v), ValueGob: valueGob(v), Expected: exp, Observed: obs + " wire=" + bx.Short(b)}
	}
	ok := true
	var ms int
	if msg, p := bx.Guard(func() { ms = v.P.MarshalSize() }); p {
		c.Report(keyJoin("C05", v.Type, "MarshalSize-panics"), "MarshalSize panics", rp("a size", msg))
		return
	}
	c.T(1)
	if ms != len(b) {
		c.Report(keyJoin("C05", v.Type, "MarshalSize", cls), fmt.Sprintf("MarshalSize()=%d but Marshal produced %d octets", ms, len(b)), rp(fmt.Sprint(len(b)), fmt.Sprint(ms)))
		ok = false
	}
	if len(b)%4 != 0 {
		c.Report(keyJoin("C05", v.Type, "unaligned", cls), fmt.Sprintf("Marshal output of %d octets is not a multiple of four", len(b)), rp("multiple of 4", fmt.Sprint(len(b))))
		ok = false
	}
	if cp, isC := v.P.(*rtcp.CompoundPacket); isC {
		sum := 0
		for _, m := range *cp {
			sum += m.MarshalSize()
		}
		if ms != sum {
			c.Report("C05/CompoundPacket/MarshalSize-sum", "CompoundPacket.MarshalSize is not the sum over its members", rp(fmt.Sprint(sum), fmt.Sprint(ms)))
			ok = false
		}
		if ok {
			c.NT()
		}
		return
	}
	if len(b) < 4 {
		c.Report(keyJoin("C05", v.Type, "short"), "Marshal output shorter than a header", rp(">= 4 octets", fmt.Sprint(len(b))))
		return
	}
	if b[0]>>6 != 2 {
		c.Report(keyJoin("C05", v.Type, "version"), "header version is not 2", rp("2", fmt.Sprint(b[0]>>6)))
		ok = false
	}
	if hs, has := typeHeader[v.Type]; has {
		if int(b[1]) != hs.pt {
			c.Report(keyJoin("C05", v.Type, "packet-type"), "header does not carry the type's packet type", rp(fmt.Sprint(hs.pt), fmt.Sprint(b[1])))
			ok = false
		}
		if int(b[0]&0x1f) != hs.count(v.P) {
			c.Report(keyJoin("C05", v.Type, "count", cls), "header does not carry the type's count / FMT", rp(fmt.Sprint(hs.count(v.P)), fmt.Sprint(b[0]&0x1f)))
			ok = false
		}
	}
	if l := int(binary.BigEndian.Uint16(b[2:])); len(b)%4 == 0 && l != len(b)/4-1 {
		c.Report(keyJoin("C05", v.Type, "length-field", cls), fmt.Sprintf("length field %d does not equal the output length in words minus one (%d octets)", l, len(b)), rp(fmt.Sprint(len(b)/4-1), fmt.Sprint(l)))
		ok = false
	}
	if h, has := v.P.(headerer); has {
		var hd rtcp.Header
		if msg, p := bx.Guard(func() { hd = h.Header() }); p {
			c.Report(keyJoin("C05", v.Type, "Header-panics"), "Header() panics", rp("a header", msg))
			return
		}
		c.T(1)
		exp := rtcp.Header{Padding: b[0]&0x20 != 0, Count: b[0] & 0x1f, Type: rtcp.PacketType(b[1]), Length: binary.BigEndian.Uint16(b[2:])}
		if hd != exp {
			c.Report(keyJoin("C05", v.Type, "Header-accessor", cls), "Header() disagrees with the marshalled header", rp(fmt.Sprintf("%+v", exp), fmt.Sprintf("%+v", hd)))
			ok = false
		}
	}
	switch x := v.P.(type) {
	case *rtcp.TransportLayerCC:
		if int(x.Len()) != len(b) {
			k := "C05/TransportLayerCC/Len-accessor"
			if len(b) > 65535 && int(x.Len()) == len(b)&0xffff {
				k += "/over-65535-octets" // Len() returns uint16: the size modulo 65536
			}
			c.Report(k, "Len() disagrees with the output length", rp(fmt.Sprint(len(b)), fmt.Sprint(x.Len())))
			ok = false
		}
		c.T(1)
	case *rtcp.CCFeedbackReport:
		if x.Len() != len(b) {
			c.Report("C05/CCFeedbackReport/Len-accessor", "Len() disagrees with the output length", rp(fmt.Sprint(len(b)), fmt.Sprint(x.Len())))
			ok = false
		}
		c.T(1)
	}
	if ok {
		c.NT()
	}
	c.Sample(func() interface{} {
		return map[string]interface{}{"value": v.String(), "octets": len(b), "MarshalSize": ms, "header": bx.Hex(b[:4])}
	})
}

// dExt: values outside well-formedness that Marshal may still accept.
func dExt(thorough bool) []ref.Builder {
	var out []ref.Builder
	add := func(typ, shape string, mk func() rtcp.Packet) { out = append(out, ref.Builder{Type: typ, Shape: shape, Make: mk}) }
	for _, n := range []int{0, 1, 2, 31} {
		for e := 0; e <= 9; e++ {
			n, e := n, e
			add("SenderReport", fmt.Sprintf("ext:reports=%d,ext=%d", n, e), func() rtcp.Packet {
				t := ref.NewTagger()
				p := &rtcp.SenderReport{SSRC: 1, NTPTime: 2, RTPTime: 3, PacketCount: 4, OctetCount: 5}
				for i := 0; i < n; i++ {
					p.Reports = append(p.Reports, rtcp.ReceptionReport{SSRC: uint32(i)})
				}
				p.ProfileExtensions = tagBytes(t, e)
				return p
			})
		}
	}
	for _, kind := range []int{1, 2} {
		for n := 0; n <= 5; n++ {
			kind, n := kind, n
			add("ExtendedReport", fmt.Sprintf("ext:rle%d,chunks=%d", kind, n), func() rtcp.Packet {
				var ch []rtcp.Chunk
				for i := 0; i < n; i++ {
					ch = append(ch, rtcp.Chunk(0x8000+i))
				}
				var blk rtcp.ReportBlock
				if kind == 1 {
					blk = &rtcp.LossRLEReportBlock{T: 3, SSRC: 7, BeginSeq: 1, EndSeq: 9, Chunks: ch}
				} else {
					blk = &rtcp.DuplicateRLEReportBlock{T: 3, SSRC: 7, BeginSeq: 1, EndSeq: 9, Chunks: ch}
				}
				return &rtcp.ExtendedReport{SenderSSRC: 5, Reports: []rtcp.ReportBlock{blk, &rtcp.ReceiverReferenceTimeReportBlock{NTPTimestamp: 1}}}
			})
		}
	}
	for _, n := range []int{1, 2, 3, 5, 6, 7} {
		n := n
		add("ExtendedReport", fmt.Sprintf("ext:unknown,bytes=%d", n), func() rtcp.Packet {
			return &rtcp.ExtendedReport{SenderSSRC: 5, Reports: []rtcp.ReportBlock{&rtcp.UnknownReportBlock{XRHeader: rtcp.XRHeader{BlockType: 9}, Bytes: make([]byte, n)}}}
		})
	}
	// sizes next to the 16-bit length field's range
	for _, n := range []int{65515, 65516, 65517, 65519, 65520, 65521, 65522, 65523} {
		n := n
		add("ApplicationDefined", fmt.Sprintf("ext:data=%d", n), func() rtcp.Packet {
			return &rtcp.ApplicationDefined{SubType: 1, SSRC: 2, Name: "abcd", Data: make([]byte, n)}
		})
	}
	for _, n := range []int{65504, 65508, 65512} {
		n := n
		add("SenderReport", fmt.Sprintf("ext:ext=%d", n), func() rtcp.Packet {
			return &rtcp.SenderReport{SSRC: 1, ProfileExtensions: make([]byte, n)}
		})
		add("ReceiverReport", fmt.Sprintf("ext:ext=%d", n+20), func() rtcp.Packet {
			return &rtcp.ReceiverReport{SSRC: 1, ProfileExtensions: make([]byte, n+20)}
		})
	}
	if thorough {
		add("CCFeedbackReport", "ext:4x16384", func() rtcp.Packet {
			p := &rtcp.CCFeedbackReport{SenderSSRC: 1}
			for b := 0; b < 3; b++ {
				p.ReportBlocks = append(p.ReportBlocks, rtcp.CCFeedbackReportBlock{MediaSSRC: uint32(b), MetricBlocks: make([]rtcp.CCFeedbackMetricBlock, 16384-b)})
			}
			return p
		})
		add("ExtendedReport", "ext:unknown,bytes=60000", func() rtcp.Packet {
			return &rtcp.ExtendedReport{SenderSSRC: 5, Reports: []rtcp.ReportBlock{&rtcp.UnknownReportBlock{XRHeader: rtcp.XRHeader{BlockType: 9}, Bytes: make([]byte, 60000)}}}
		})
		add("SourceDescription", "ext:31x255", func() rtcp.Packet {
			p := &rtcp.SourceDescription{}
			txt := string(make([]byte, 255))
			for i := 0; i < 31; i++ {
				p.Chunks = append(p.Chunks, rtcp.SourceDescriptionChunk{Source: uint32(i), Items: []rtcp.SourceDescriptionItem{{Type: 1, Text: txt}, {Type: 2, Text: txt[:254]}}})
			}
			return p
		})
		add("SenderReport", "ext:ext=65000", func() rtcp.Packet {
			return &rtcp.SenderReport{ProfileExtensions: make([]byte, 65000)}
		})
	}
	return out
}

func tagBytes(t *ref.Tagger, n int) []byte {
	b := make([]byte, n)
	for i := range b {
		b[i] = byte(0x81 + i)
	}
	return b
}

func runC05(c *bx.Ctx) {
	c.Space("D")
	forD(c, func(v ref.V) { c05One(c, v) })
	c.Space("D_ext")
	for _, b := range dExt(c.Thorough()) {
		if !c.Mine() {
			continue
		}
		c05One(c, ref.V{P: b.Make(), Type: b.Type, Shape: b.Shape})
	}
}
