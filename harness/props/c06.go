package props

import (
	"bytes"
	"fmt"

	"github.com/pion/rtcp"

	"verif/bx"
	"verif/ref"
)

// C06 — datagram decoding splits at length fields, is local, and is all-or-nothing.

func init() {
	register(&Prop{ID: "C06", Run: runC06,
		Rule: "graph space: every sequence (depth <= k) over an alphabet of valid frames of every type (decoders that 'take the rest' appear first and last) and malformed elements (bad version, length beyond the buffer, malformed body, truncated tail, surplus octets, length 65535); a transition appends one element. Oracle: the reference splitter cuts the datagram at its length fields; the result must equal the concatenation of the single-frame results, or be (nil, error) if any frame fails or the datagram is empty. Non-trivial = sequences of >= 2 elements",
		Assumptions: []string{
			"differential oracle: the expected packet for a frame is what rtcp.Unmarshal returns for that frame alone (C02/C04 judge single frames)",
			"the frame alphabet is representative of adjacency effects; sequences longer than the bound are not explored",
		},
		BoundsQuick:    "~40 elements, all sequences of depth <= 3",
		BoundsThorough: "~40 elements, all sequences of depth <= 4",
	})
}

type c06elem struct {
	name string
	b    []byte
}

func c06Alphabet() []c06elem {
	var out []c06elem
	want := map[string]bool{
		"SenderReport/reports=2,ext=4": true, "SenderReport/reports=0,ext=0": true, "SenderReport/reports=1,ext=8": true,
		"ReceiverReport/reports=1,ext=0": true, "ReceiverReport/reports=0,ext=4": true, "ReceiverReport/reports=2,ext=5": true,
		"SourceDescription/chunks=2,items=2,rot=1": true, "SourceDescription/chunks=0,items=0,rot=0": true,
		"Goodbye/sources=2,reason=5": true, "Goodbye/sources=0,reason=0": true,
		"ApplicationDefined/data=5": true, "ApplicationDefined/data=0": true,
		"TransportLayerNack/pairs=2": true, "RapidResynchronizationRequest/": true, "PictureLossIndication/": true,
		"SliceLossIndication/entries=2": true, "FullIntraRequest/entries=2": true, "ReceiverEstimatedMaximumBitrate/ssrcs=2": true,
		"CCFeedbackReport/blocks=2,metrics=2,begin=-1": true, "CCFeedbackReport/blocks=0,metrics=0,begin=-1": true,
		"TransportLayerCC/seq=7,chunking=rl,pbit=false": true, "TransportLayerCC/seq=8,chunking=v2,pbit=true": true, "TransportLayerCC/seq=11,chunking=v2,pbit=false": true,
		"ExtendedReport/blocks=all-kinds": true, "ExtendedReport/blocks=1:DLRR,reports=2": true, "ExtendedReport/blocks=0": true, "ExtendedReport/blocks=1:Unknown,bt=8,bytes=4": true,
		"RawPacket/pt=192,fmt=1,words=2,p=false": true, "RawPacket/pt=205,fmt=31,words=1,p=false": true, "RawPacket/pt=0,fmt=0,words=0,p=false": true, "RawPacket/pt=208,fmt=0,words=5,p=true": true,
	}
	for _, b := range ref.Builders(false) {
		if !want[b.Type+"/"+b.Shape] {
			continue
		}
		wire, err, pan := safeMarshal(b.Make())
		if err != nil || pan != "" {
			continue
		}
		out = append(out, c06elem{b.Type + "{" + b.Shape + "}", append([]byte{}, wire...)})
	}
	// malformed elements
	out = append(out,
		c06elem{"bad-version-0", []byte{0x00, 200, 0, 1, 1, 2, 3, 4}},
		c06elem{"bad-version-3", []byte{0xc1, 206, 0, 2, 1, 2, 3, 4, 5, 6, 7, 8}},
		c06elem{"length-beyond", []byte{0x81, 206, 0, 3, 1, 2, 3, 4, 5, 6, 7, 8}},
		c06elem{"length-65535", []byte{0x80, 201, 0xff, 0xff, 1, 2, 3, 4}},
		c06elem{"sr-count-without-report", []byte{0x81, 200, 0, 6, 1, 2, 3, 4, 0, 0, 0, 0, 0, 0, 0, 0, 0, 0, 0, 0, 0, 0, 0, 0, 0, 0, 0, 0}},
		c06elem{"sdes-unterminated", []byte{0x81, 202, 0, 2, 1, 2, 3, 4, 1, 9, 'a', 'b'}},
		c06elem{"pli-short", []byte{0x81, 206, 0, 1, 1, 2, 3, 4}},
		c06elem{"tail-1", []byte{0x80}},
		c06elem{"tail-2", []byte{0x80, 201}},
		c06elem{"tail-3", []byte{0x80, 201, 0}},
		c06elem{"zero-word", []byte{0, 0, 0, 0}},
	)
	return out
}

func runC06(c *bx.Ctx) {
	alpha := c06Alphabet()
	c.Note(fmt.Sprintf("frame alphabet: %d elements", len(alpha)))
	// single-frame results, computed once per (frame bytes)
	type single struct {
		p   rtcp.Packet
		ok  bool
		dmp string
	}
	cache := map[string]single{}
	one := func(f []byte) single {
		if s, ok := cache[string(f)]; ok {
			return s
		}
		ps, err, pan := safeDgram(append([]byte{}, f...))
		c.T(1)
		s := single{}
		if pan == "" && err == nil && len(ps) == 1 {
			s = single{p: ps[0], ok: true, dmp: ref.Dump(ps[0])}
		}
		cache[string(f)] = s
		return s
	}
	maxDepth := 3
	if c.Thorough() {
		maxDepth = 4
	}
	c.Space("sequences")
	if c.Mine() { // the empty datagram
		for _, in := range [][]byte{nil, {}} {
			ps, err, pan := safeDgram(in)
			c.T(1)
			if pan != "" || err == nil || ps != nil {
				c.Report("C06/empty-datagram", "an empty datagram does not yield (nil, error)", bx.Replay{Entry: "dgram", InputHex: "", Expected: "nil, error", Observed: fmt.Sprint(ps, err, pan)})
			}
		}
	}
	idx := make([]int, 0, maxDepth)
	check := func() {
		var dg []byte
		names := ""
		for _, i := range idx {
			dg = append(dg, alpha[i].b...)
			names += alpha[i].name + " | "
		}
		in := append([]byte{}, dg...)
		ps, err, pan := safeDgram(in)
		c.T(1)
		rp := func(exp, obs string) bx.Replay {
			return bx.Replay{Entry: "dgram", InputHex: bx.Hex(dg), Ops: names, Expected: exp, Observed: obs}
		}
		if pan != "" {
			c.Report("C06/panic", "rtcp.Unmarshal panics on a concatenation of frames", rp("value or error", "panic: "+pan))
			return
		}
		if !bytes.Equal(in, dg) {
			c.Report("C06/input-modified", "rtcp.Unmarshal modifies the datagram", rp("unchanged", bx.Hex(in)))
			return
		}
		frames, serr := ref.Split(dg)
		var want []single
		good := serr == nil
		if good {
			for _, f := range frames {
				s := one(f)
				if !s.ok {
					good = false
					break
				}
				want = append(want, s)
			}
		}
		if !good {
			if err == nil || ps != nil {
				why := "a frame is malformed"
				if serr != nil {
					why = serr.Error()
				}
				c.Report("C06/not-all-or-nothing", "a datagram with a malformed frame / incomplete tail does not yield (nil, error): "+why, rp("nil, error", fmt.Sprintf("%d packets, err=%v", len(ps), err)))
			} else if len(idx) >= 2 {
				c.NT()
			}
			return
		}
		if err != nil {
			c.Report("C06/valid-rejected", "a concatenation of individually accepted frames is rejected", rp(fmt.Sprintf("%d packets", len(want)), "error: "+err.Error()))
			return
		}
		if len(ps) != len(want) {
			c.Report("C06/wrong-split", "the datagram is not split at the length fields: wrong number of packets", rp(fmt.Sprint(len(want)), fmt.Sprint(len(ps))))
			return
		}
		for i := range ps {
			if d := ref.Dump(ps[i]); d != want[i].dmp {
				c.Report(keyJoin("C06/not-local", TypeName(want[i].p)), fmt.Sprintf("packet %d decoded inside the datagram differs from the same frame decoded alone (decoder looks beyond its frame?)", i), rp(want[i].dmp, d))
				return
			}
		}
		if len(idx) >= 2 {
			c.NT()
		}
		c.Sample(func() interface{} { return map[string]interface{}{"sequence": names, "octets": len(dg), "packets": len(ps)} })
	}
	var rec func()
	rec = func() {
		check()
		c.Add(1)
		if len(idx) == maxDepth {
			return
		}
		for i := range alpha {
			idx = append(idx, i)
			rec()
			idx = idx[:len(idx)-1]
		}
	}
	for i := range alpha {
		if c.Mine() {
			idx = append(idx[:0], i)
			check()
		}
		for j := range alpha {
			if !c.MineBlock(0) {
				continue
			}
			if c.Expired() {
				return
			}
			idx = append(idx[:0], i, j)
			rec()
		}
	}
}
