package props

import (
	"bytes"
	"fmt"
	"strings"

	"github.com/pion/rtcp"

	"verif/bx"
	"verif/ref"
)

// C06 — datagram decoding splits at length fields, is local, and is all-or-nothing.

func init() {
	register(&Prop{ID: "C06", Run: runC06,
		Rule: "graph space: every sequence (depth <= k) over an alphabet of valid frames of every type (decoders that 'take the rest' appear first and last) and malformed elements (bad version, length beyond the buffer, malformed body, truncated tail, surplus octets, length 65535); a transition appends one element. Oracle: the reference splitter cuts the datagram at its length fields; the result must equal the concatenation of the single-frame results, or be (nil, error) if any frame fails or the datagram is empty. Non-trivial = sequences of >= 2 elements",
		Assumptions: []string{
			"differential oracle: the expected packet for a frame is what rtcp.Unmarshal returns for that frame alone (C02/C04 judge single frames); a frame is malformed when its own decoder refuses it alone, or when its framing (version, length field, size) is broken. Whether a decoder is too lenient towards a well-framed body that an RFC forbids (a FIR without entries, a sender report whose count exceeds the blocks present) is not judged: no statement lists such bodies",
			"the frame alphabet is representative of adjacency effects; sequences longer than the bound are not explored",
		},
		BoundsQuick:    "42 small elements, all sequences of depth <= 3; 9 large frames (64 KiB..256 KiB) alone, next to every element and around 8 representative frames",
		BoundsThorough: "42 small elements, all sequences of depth <= 5 (1.3e8); 9 large frames (64 KiB..256 KiB) alone, next to every element and around 8 representative frames",
	})
}

type c06elem struct {
	name  string
	b     []byte
	valid bool // a well-framed packet by construction: must be accepted on its own
}

func min(a, b int) int {
	if a < b {
		return a
	}
	return b
}

func c06Alphabet() []c06elem {
	var out []c06elem
	want := map[string]bool{
		"SenderReport/reports=2,ext=4": true, "SenderReport/reports=0,ext=0": true, "SenderReport/reports=1,ext=8": true,
		"ReceiverReport/reports=1,ext=0": true, "ReceiverReport/reports=0,ext=4": true, "ReceiverReport/reports=2,ext=5": true,
		"SourceDescription/chunks=2,items=2,rot=1": true, "SourceDescription/chunks=0,items=0,rot=0": true,
		"Goodbye/sources=2,reason=5": true, "Goodbye/sources=0,reason=0": true,
		"ApplicationDefined/data=5": true, "ApplicationDefined/data=0": true,
		"TransportLayerNack/pairs=2": true, "RapidResynchronizationRequest/": true, "PictureLossIndication/": true,
		"SliceLossIndication/entries=2": true, "FullIntraRequest/entries=2": true, "ReceiverEstimatedMaximumBitrate/ssrcs=2": true,
		"CCFeedbackReport/blocks=2,metrics=2,begin=-1": true, "CCFeedbackReport/blocks=0,metrics=0,begin=-1": true,
		"TransportLayerCC/seq=7,chunking=rl,pbit=false": true, "TransportLayerCC/seq=8,chunking=v2,pbit=true": true, "TransportLayerCC/seq=11,chunking=v2,pbit=false": true,
		"ExtendedReport/blocks=all-kinds": true, "ExtendedReport/blocks=1:DLRR,reports=2": true, "ExtendedReport/blocks=0": true, "ExtendedReport/blocks=1:Unknown,bt=8,bytes=4": true,
		"RawPacket/pt=192,fmt=1,words=2,p=false": true, "RawPacket/pt=205,fmt=31,words=1,p=false": true, "RawPacket/pt=0,fmt=0,words=0,p=false": true, "RawPacket/pt=208,fmt=0,words=5,p=true": true,
	}
	for _, b := range ref.Builders(false) {
		if !want[b.Type+"/"+b.Shape] {
			continue
		}
		wire, err, pan := safeMarshal(b.Make())
		if err != nil || pan != "" {
			continue
		}
		out = append(out, c06elem{b.Type + "{" + b.Shape + "}", append([]byte{}, wire...), true})
	}
	// malformed elements
	out = append(out,
		c06elem{name: "bad-version-0", b: []byte{0x00, 200, 0, 1, 1, 2, 3, 4}},
		c06elem{name: "bad-version-3", b: []byte{0xc1, 206, 0, 2, 1, 2, 3, 4, 5, 6, 7, 8}},
		c06elem{name: "length-beyond", b: []byte{0x81, 206, 0, 3, 1, 2, 3, 4, 5, 6, 7, 8}},
		c06elem{name: "length-65535", b: []byte{0x80, 201, 0xff, 0xff, 1, 2, 3, 4}},
		c06elem{name: "sr-count-without-report", b: []byte{0x81, 200, 0, 6, 1, 2, 3, 4, 0, 0, 0, 0, 0, 0, 0, 0, 0, 0, 0, 0, 0, 0, 0, 0, 0, 0, 0, 0}},
		c06elem{name: "sdes-unterminated", b: []byte{0x81, 202, 0, 2, 1, 2, 3, 4, 1, 9, 'a', 'b'}},
		c06elem{name: "pli-short", b: []byte{0x81, 206, 0, 1, 1, 2, 3, 4}},
		c06elem{name: "tail-1", b: []byte{0x80}},
		c06elem{name: "tail-2", b: []byte{0x80, 201}},
		c06elem{name: "tail-3", b: []byte{0x80, 201, 0}},
		c06elem{name: "zero-word", b: []byte{0, 0, 0, 0}},
	)
	return out
}

func runC06(c *bx.Ctx) {
	alpha := c06Alphabet()
	c.Note(fmt.Sprintf("frame alphabet: %d elements", len(alpha)))
	// single-frame results, computed once per (frame bytes)
	type single struct {
		p   rtcp.Packet
		ok  bool
		dmp string
	}
	cache := map[string]single{}
	one := func(f []byte) single {
		if s, ok := cache[string(f)]; ok {
			return s
		}
		ps, err, pan := safeDgram(append([]byte{}, f...))
		c.T(1)
		s := single{}
		if pan == "" && err == nil && len(ps) == 1 {
			s = single{p: ps[0], ok: true, dmp: ref.Dump(ps[0])}
		}
		cache[string(f)] = s
		return s
	}
	maxDepth := 3
	if c.Thorough() {
		maxDepth = 5
	}
	c.Space("sequences")
	if c.Mine() { // the empty datagram
		for _, in := range [][]byte{nil, {}} {
			ps, err, pan := safeDgram(in)
			c.T(1)
			if pan != "" || err == nil || ps != nil {
				c.Report("C06/empty-datagram", "an empty datagram does not yield (nil, error)", bx.Replay{Entry: "dgram", InputHex: "", Expected: "nil, error", Observed: fmt.Sprint(ps, err, pan)})
			}
		}
	}
	idx := make([]int, 0, maxDepth)
	check := func() {
		var dg []byte
		names := ""
		for _, i := range idx {
			dg = append(dg, alpha[i].b...)
			names += alpha[i].name + " | "
		}
		in := append([]byte{}, dg...)
		ps, err, pan := safeDgram(in)
		c.T(1)
		rp := func(exp, obs string) bx.Replay {
			return bx.Replay{Entry: "dgram", InputHex: bx.Hex(dg), Ops: names, Expected: exp, Observed: obs}
		}
		if pan != "" {
			c.Report("C06/panic", "rtcp.Unmarshal panics on a concatenation of frames", rp("value or error", "panic: "+pan))
			return
		}
		if !bytes.Equal(in, dg) {
			c.Report("C06/input-modified", "rtcp.Unmarshal modifies the datagram", rp("unchanged", bx.Hex(in)))
			return
		}
		frames, serr := ref.Split(dg)
		var want []single
		good := serr == nil
		if good {
			for _, f := range frames {
				s := one(f)
				if !s.ok {
					good = false
					break
				}
				want = append(want, s)
			}
		}
		if !good {
			if err == nil || ps != nil {
				why := "a frame is malformed"
				if serr != nil {
					why = serr.Error()
				}
				c.Report("C06/not-all-or-nothing", "a datagram with a malformed frame / incomplete tail does not yield (nil, error): "+why, rp("nil, error", fmt.Sprintf("%d packets, err=%v", len(ps), err)))
			} else if len(idx) >= 2 {
				c.NT()
			}
			return
		}
		if err != nil {
			c.Report("C06/valid-rejected", "a concatenation of individually accepted frames is rejected", rp(fmt.Sprintf("%d packets", len(want)), "error: "+err.Error()))
			return
		}
		if len(ps) != len(want) {
			c.Report("C06/wrong-split", "the datagram is not split at the length fields: wrong number of packets", rp(fmt.Sprint(len(want)), fmt.Sprint(len(ps))))
			return
		}
		for i := range ps {
			if d := ref.Dump(ps[i]); d != want[i].dmp {
				c.Report(keyJoin("C06/not-local", TypeName(want[i].p)), fmt.Sprintf("packet %d decoded inside the datagram differs from the same frame decoded alone (decoder looks beyond its frame?)", i), rp(want[i].dmp, d))
				return
			}
		}
		if len(idx) >= 2 {
			c.NT()
		}
		c.Sample(func() interface{} { return map[string]interface{}{"sequence": names, "octets": len(dg), "packets": len(ps)} })
	}
	// large frames (64 KiB and more: the 16-bit words*4 arithmetic wraps there)
	nSmall := len(alpha)
	for _, g := range c06Large() {
		alpha = append(alpha, g)
	}
	// every well-framed element must be accepted on its own as exactly one packet covering it
	// (the differential oracle below takes the single-frame decode as its baseline)
	if c.Shard == 0 {
		for _, e := range alpha {
			if !e.valid {
				continue
			}
			if s := one(e.b); !s.ok {
				c.Report(keyJoin("C06/valid-frame-rejected-alone", strings.SplitN(e.name, "{", 2)[0]), "a well-framed packet is not accepted on its own as exactly one packet: "+e.name,
					bx.Replay{Entry: "dgram", InputHex: bx.Hex(e.b[:min(len(e.b), 64)]), Ops: fmt.Sprintf("%s (%d octets)", e.name, len(e.b)), Expected: "one packet", Observed: "error or a different number of packets"})
			}
		}
	}
	var rec func()
	rec = func() {
		check()
		c.Add(1)
		if len(idx) == maxDepth {
			return
		}
		for i := 0; i < nSmall; i++ {
			idx = append(idx, i)
			rec()
			idx = idx[:len(idx)-1]
		}
	}
	for i := 0; i < nSmall; i++ {
		if c.Mine() {
			idx = append(idx[:0], i)
			check()
		}
		for j := 0; j < nSmall; j++ {
			if !c.MineBlock(0) {
				continue
			}
			if c.Expired() {
				return
			}
			idx = append(idx[:0], i, j)
			rec()
		}
	}
	// every cut: each concatenation of up to two valid small frames truncated at every octet
	c.Space("every-truncation-point")
	for i := 0; i < nSmall; i++ {
		if !alpha[i].valid {
			continue
		}
		for j := -1; j < nSmall; j++ {
			if j >= 0 && !alpha[j].valid {
				continue
			}
			if !c.MineBlock(0) {
				continue
			}
			dg := append([]byte{}, alpha[i].b...)
			if j >= 0 {
				dg = append(dg, alpha[j].b...)
			}
			for cut := 0; cut < len(dg); cut++ {
				c.Add(1)
				in := append([]byte{}, dg[:cut]...)
				ps, err, pan := safeDgram(in)
				c.T(1)
				frames, serr := ref.Split(dg[:cut])
				okRef := serr == nil
				if okRef {
					for _, f := range frames {
						if !one(f).ok {
							okRef = false
						}
					}
				}
				if pan != "" {
					c.Report("C06/truncation/panic", "rtcp.Unmarshal panics on a truncated datagram", bx.Replay{Entry: "dgram", InputHex: bx.Hex(dg[:cut]), Expected: "error", Observed: "panic: " + pan})
				} else if !okRef && (err == nil || ps != nil) {
					c.Report("C06/truncation/accepted", "a datagram cut inside a frame does not yield (nil, error)", bx.Replay{Entry: "dgram", InputHex: bx.Hex(dg[:cut]), Expected: "nil, error", Observed: fmt.Sprintf("%d packets err=%v", len(ps), err)})
				} else if okRef && (err != nil || len(ps) != len(frames)) {
					c.Report("C06/truncation/complete-prefix-rejected", "a datagram cut exactly at a frame boundary is not decoded to the frames before the cut", bx.Replay{Entry: "dgram", InputHex: bx.Hex(dg[:cut]), Expected: fmt.Sprint(len(frames), " packets"), Observed: fmt.Sprintf("%d packets err=%v", len(ps), err)})
				} else {
					c.NT()
				}
			}
		}
	}
	// sequences containing a large frame: alone, next to every element, and between / around
	// eight representative small frames
	c.Space("sequences-with-large-frames")
	reps := []int{}
	for i := 0; i < nSmall && len(reps) < 8; i += nSmall / 8 {
		reps = append(reps, i)
	}
	seqOne := func(seq ...int) {
		if !c.Mine() {
			return
		}
		idx = append(idx[:0], seq...)
		check()
	}
	for g := nSmall; g < len(alpha); g++ {
		if c.Expired() {
			return
		}
		seqOne(g)
		for s := 0; s < len(alpha); s++ {
			seqOne(g, s)
			seqOne(s, g)
		}
		for _, a := range reps {
			for _, b := range reps {
				seqOne(a, g, b)
				seqOne(g, a, b)
				seqOne(a, b, g)
			}
		}
	}
}

// c06Large: well-framed packets of 64 KiB and more.
func c06Large() []c06elem {
	var out []c06elem
	raw := func(pt byte, words int) []byte {
		b := make([]byte, 4*(words+1))
		b[0], b[1], b[2], b[3] = 0x80, pt, byte(words>>8), byte(words)
		for i := 4; i < len(b); i++ {
			b[i] = byte(i * 7)
		}
		return b
	}
	for _, w := range []int{0x3ffe, 0x3fff, 0x4000, 0x7fff, 0x8000, 0xffff} {
		out = append(out, c06elem{fmt.Sprintf("raw-pt199-length-%#x", w), raw(199, w), true})
	}
	// typed frames whose body is all "the rest": SR / RR with large extensions, APP with large data
	sr := raw(200, 0x3fff)
	out = append(out, c06elem{"sr-65536-octets", sr, true})
	rr := raw(201, 0x4000)
	out = append(out, c06elem{"rr-65540-octets", rr, true})
	app := raw(204, 0x4001)
	out = append(out, c06elem{"app-65544-octets", app, true})
	return out
}
