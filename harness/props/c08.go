package props

import (
	"bytes"
	"fmt"
	"math"
	"strings"

	"github.com/pion/rtcp"

	"verif/bx"
	"verif/ref"
)

// C08 — Marshal never silently truncates: out-of-range values are errors.

func init() {
	register(&Prop{ID: "C08", Run: runC08,
		Rule: "for every wire limit the statement names, the values L-1, L, L+1, L+2, every 2^k-1 / 2^k / 2^k+1 up to the Go field's width and the wrap points 256/257 and 65536/65537, crossed with the position in the enclosing list (first / middle / last) and the rest of the packet at its tagged base. Above the limit Marshal must fail with no bytes; at or below it must succeed with exactly the reference encoding (so every count/length/bounded field represents the content). Non-trivial = values at or above L-1",
		Assumptions: []string{
			"the quantifier says 'for every field that has' a wire limit: besides the limits the statement lists, every scalar field narrower on the wire than in Go (space over-width-fields) and the 16-bit length field of every type whose size is unbounded (space length-field) are judged; the pinned tree masks the over-wide scalars silently (known findings)",
		},
		BoundsQuick:    "over-width: every bounded scalar leaf of every base value of D at its first/middle/last occurrence x {1<<width, type max}, chunk encoders; length field: sizes 262136..524316 for SR/RR/XR/FIR/SDES/CCFB with exact 262144 probes; counts {0,1,30,31,32,33,255,256,257}; texts {0,1,254,255,256,257,511,512}; TotalLost all 2^k-1,2^k,2^k+1 for k<=32 at 3 positions in SR and RR; REMB SSRCs {254..257,512}; CCFB metric blocks {16383..16386,32768} at 3 block positions; APP names 0..8 octets; TWCC delta boundary ticks at every position of lists of <= 3",
		BoundsThorough: "as quick over D thorough, with every occurrence of every bounded scalar leaf set beyond its width; CCFB metric-block counts up to 131072+16384",
	})
}

type c08case struct {
	limit string
	desc  string
	p     rtcp.Packet
	over  bool
}

func c08Run(c *bx.Ctx, k c08case, opt ref.Opt) {
	b, err, pan := safeMarshal(k.p)
	c.T(1)
	rp := func(exp, obs string) bx.Replay {
		return bx.Replay{Entry: "Marshal", Ops: k.limit + ": " + k.desc, Expected: exp, Observed: obs}
	}
	if pan != "" {
		c.Report(keyJoin("C08", k.limit, "panic"), "Marshal panics at a wire limit: "+pan, rp("error or bytes", "panic: "+pan))
		return
	}
	if k.over {
		if err == nil {
			c.Report(keyJoin("C08", k.limit, "over-limit-accepted"), "a value exceeding the wire limit marshals with a nil error (silent truncation)", rp("error and no bytes", bx.Short(b)))
			return
		}
		if len(b) != 0 {
			c.Report(keyJoin("C08", k.limit, "bytes-with-error"), "Marshal returns bytes together with an error", rp("no bytes", bx.Short(b)))
			return
		}
		c.NT()
		return
	}
	if err != nil {
		c.Report(keyJoin("C08", k.limit, "at-limit-rejected"), "a value at or below the wire limit is rejected: "+err.Error(), rp("success", err.Error()))
		return
	}
	w, rerr := ref.Encode(k.p, opt)
	if rerr != nil {
		c.Report(keyJoin("C08", k.limit, "harness/reference-rejects"), "HARNESS: reference encoder rejects an in-limit value", rp("reference bytes", rerr.Error()))
		return
	}
	same := len(b) == len(w.B)
	for i := 0; same && i < len(b); i++ {
		if b[i] != w.B[i] && !w.Free[i] {
			same = false
		}
	}
	if !same {
		c.Report(keyJoin("C08", k.limit, "in-limit-bytes-differ"), "emitted counts / lengths / fields do not represent the value's content", rp(bx.Short(w.B), bx.Short(b)))
		return
	}
	c.NT()
	c.Sample(func() interface{} { return map[string]interface{}{"limit": k.limit, "case": k.desc, "octets": len(b)} })
}

// sameModuloFree compares pion's bytes with the reference encoding, ignoring the octets the
// reference marks as free (padding content).
func sameModuloFree(b []byte, w *ref.W) bool {
	if len(b) != len(w.B) {
		return false
	}
	for i := range b {
		if b[i] != w.B[i] && !w.Free[i] {
			return false
		}
	}
	return true
}

func pow2set(maxBits uint) []uint64 {
	seen := map[uint64]bool{}
	var out []uint64
	add := func(v uint64) {
		if !seen[v] {
			seen[v] = true
			out = append(out, v)
		}
	}
	add(0)
	for k := uint(0); k <= maxBits; k++ {
		var p uint64
		if k == 64 {
			break
		}
		p = 1 << k
		add(p - 1)
		if k < maxBits {
			add(p)
			add(p + 1)
		}
	}
	return out
}

func runC08(c *bx.Ctx) {
	opt, _, _ := ccfbReading()
	var cases []c08case
	add := func(limit, desc string, p rtcp.Packet, over bool) {
		cases = append(cases, c08case{limit, desc, p, over})
	}
	// the 8- and 16-bit wrap points of counts and lengths belong to the quick tier as well
	counts := []int{0, 1, 30, 31, 32, 33, 255, 256, 257, 287, 288, 65535, 65536, 65537, 65536 + 31}
	texts := []int{0, 1, 254, 255, 256, 257, 511, 512, 65535, 65536, 65537, 65536 + 255}
	t := ref.NewTagger()
	rep := func(i int) rtcp.ReceptionReport {
		return rtcp.ReceptionReport{SSRC: 0x80000000 + uint32(i), FractionLost: uint8(i), TotalLost: uint32(i), LastSequenceNumber: 7, Jitter: 8, LastSenderReport: 9, Delay: 10}
	}
	_ = t
	for _, n := range counts {
		sr := &rtcp.SenderReport{SSRC: 1, NTPTime: 2, RTPTime: 3, PacketCount: 4, OctetCount: 5}
		rr := &rtcp.ReceiverReport{SSRC: 1}
		sd := &rtcp.SourceDescription{}
		by := &rtcp.Goodbye{Reason: "r"}
		for i := 0; i < n; i++ {
			sr.Reports = append(sr.Reports, rep(i))
			rr.Reports = append(rr.Reports, rep(i))
			sd.Chunks = append(sd.Chunks, rtcp.SourceDescriptionChunk{Source: uint32(i), Items: []rtcp.SourceDescriptionItem{{Type: 1, Text: "c"}}})
			by.Sources = append(by.Sources, uint32(i))
		}
		add("sr-reports-31", fmt.Sprint(n, " reports"), sr, n > 31)
		add("rr-reports-31", fmt.Sprint(n, " reports"), rr, n > 31)
		add("sdes-chunks-31", fmt.Sprint(n, " chunks"), sd, n > 31)
		add("bye-sources-31", fmt.Sprint(n, " sources"), by, n > 31)
		if n <= 257 {
			add("app-subtype-31", fmt.Sprint("subtype ", n&0xff), &rtcp.ApplicationDefined{SubType: uint8(n), SSRC: 1, Name: "abcd", Data: []byte{1}}, n&0xff > 31)
		}
	}
	for _, l := range texts {
		txt := strings.Repeat("x", l)
		for _, pos := range []int{0, 1, 2} {
			items := []rtcp.SourceDescriptionItem{{Type: 1, Text: "a"}, {Type: 2, Text: "bb"}, {Type: 3, Text: "ccc"}}
			items[pos].Text = txt
			add("sdes-text-255", fmt.Sprintf("text of %d octets in item %d", l, pos), &rtcp.SourceDescription{Chunks: []rtcp.SourceDescriptionChunk{{Source: 5, Items: items}}}, l > 255)
		}
		add("bye-reason-255", fmt.Sprintf("reason of %d octets", l), &rtcp.Goodbye{Sources: []uint32{1}, Reason: txt}, l > 255)
		add("sdes-item-text-255", fmt.Sprintf("SourceDescriptionItem text of %d octets", l), nil, false) // placeholder replaced below
		cases = cases[:len(cases)-1]
	}
	// cumulative lost
	for _, v := range pow2set(32) {
		if v > math.MaxUint32 {
			continue
		}
		for _, pos := range []int{0, 1, 2} {
			sr := &rtcp.SenderReport{SSRC: 1}
			rr := &rtcp.ReceiverReport{SSRC: 1}
			for i := 0; i < 3; i++ {
				sr.Reports = append(sr.Reports, rep(i))
				rr.Reports = append(rr.Reports, rep(i))
			}
			sr.Reports[pos].TotalLost = uint32(v)
			rr.Reports[pos].TotalLost = uint32(v)
			add("total-lost-2^24", fmt.Sprintf("SR TotalLost=%#x in report %d", v, pos), sr, v >= 1<<24)
			add("total-lost-2^24", fmt.Sprintf("RR TotalLost=%#x in report %d", v, pos), rr, v >= 1<<24)
		}
	}
	// REMB
	for _, n := range []int{0, 1, 254, 255, 256, 257, 511, 512, 65535, 65536, 65536 + 255} {
		p := &rtcp.ReceiverEstimatedMaximumBitrate{SenderSSRC: 1, Bitrate: 1e6}
		for i := 0; i < n; i++ {
			p.SSRCs = append(p.SSRCs, uint32(i))
		}
		add("remb-ssrcs-255", fmt.Sprint(n, " SSRCs"), p, n > 255)
	}
	for _, f := range []float32{-1, -0.5, -1e-30, -3e38, float32(math.Inf(-1))} {
		add("remb-negative", fmt.Sprint("bitrate ", f), &rtcp.ReceiverEstimatedMaximumBitrate{SenderSSRC: 1, Bitrate: f}, true)
	}
	// CCFB
	mbs := []int{0, 2, 16383, 16384, 16385, 16386, 32768, 65535, 65536, 65537, 65536 + 16384, 65536 + 16385}
	if c.Thorough() {
		mbs = append(mbs, 131072, 131073, 131072+16384)
	}
	for _, n := range mbs {
		for _, pos := range []int{0, 1, 2} {
			p := &rtcp.CCFeedbackReport{SenderSSRC: 1, ReportTimestamp: 2}
			for b := 0; b < 3; b++ {
				blk := rtcp.CCFeedbackReportBlock{MediaSSRC: uint32(b), BeginSequence: 10, MetricBlocks: []rtcp.CCFeedbackMetricBlock{{Received: true, ECN: 1, ArrivalTimeOffset: 5}, {}}}
				if b == pos {
					blk.MetricBlocks = make([]rtcp.CCFeedbackMetricBlock, n)
					for i := range blk.MetricBlocks {
						if i%2 == 0 {
							blk.MetricBlocks[i] = rtcp.CCFeedbackMetricBlock{Received: true, ECN: rtcp.ECN(i & 3), ArrivalTimeOffset: uint16(i & 0x1fff)}
						}
					}
				}
				p.ReportBlocks = append(p.ReportBlocks, blk)
			}
			add("ccfb-metric-blocks-16384", fmt.Sprintf("%d metric blocks in block %d", n, pos), p, n > 16384)
		}
	}
	// APP name
	for l := 0; l <= 8; l++ {
		add("app-name-4", fmt.Sprintf("name of %d octets", l), &rtcp.ApplicationDefined{SubType: 1, SSRC: 2, Name: strings.Repeat("n", l), Data: []byte{1, 2, 3, 4}}, l != 4)
	}
	// APP names are four OCTETS, whatever they mean as text
	for _, nm := range []string{"\xc3\xb1ab", "\xc3\xb1abc", "\xe2\x82\xaca", "\xc3\xa9\xc3\xa9\xc3\xa9\xc3\xa9", "\xf0\x9f\x98\x80", "\xf0\x9f\x98\x80a", "\x00\x00\x00\x00", "\xff\xfe\xfd\xfc", "ab\x00"} {
		add("app-name-4", fmt.Sprintf("name %q (%d octets)", nm, len(nm)), &rtcp.ApplicationDefined{SubType: 1, SSRC: 2, Name: nm, Data: []byte{1, 2, 3, 4}}, len(nm) != 4)
	}
	// SDES item type 0
	for pos := 0; pos < 3; pos++ {
		items := []rtcp.SourceDescriptionItem{{Type: 1, Text: "a"}, {Type: 2, Text: "bb"}, {Type: 3, Text: "ccc"}}
		items[pos].Type = 0
		add("sdes-item-type-0", fmt.Sprintf("item %d has type 0", pos), &rtcp.SourceDescription{Chunks: []rtcp.SourceDescriptionChunk{{Source: 5, Items: items}}}, true)
	}
	// TWCC deltas
	for n := 1; n <= 3; n++ {
		for pos := 0; pos < n; pos++ {
			for _, cls := range []uint8{ref.StSmall, ref.StLarge} {
				vals := []int64{-2, -1, 0, 1, 254, 255, 256, 257, 300, 65535, 65536}
				if cls == ref.StLarge {
					vals = []int64{-65536, -32770, -32769, -32768, -32767, -1, 0, 1, 32766, 32767, 32768, 32769, 65535, 65536}
				}
				for _, v := range vals {
					st := make([]uint8, n)
					for i := range st {
						st[i] = ref.StSmall
						if i%2 == 1 {
							st[i] = ref.StLarge
						}
					}
					st[pos] = cls
					ticks := ref.DefaultTicks(st)
					over := v < 0 || v > 255
					if cls == ref.StLarge {
						over = v < -32768 || v > 32767
					}
					spec := ref.TWCCSpec{Sender: 1, Media: 2, BaseSeq: 3, RefTime: 4, FbCount: 5, Statuses: st, Ticks: ticks, Chunks: ref.VectorChunking(st, true)}
					p := spec.Packet()
					p.RecvDeltas[pos].Delta = 250 * v
					if over {
						// the header must still describe the intended layout
					}
					add("twcc-delta-range", fmt.Sprintf("class %d delta %d ticks at position %d of %d", cls, v, pos, n), p, over)
				}
			}
		}
	}
	// header count
	for cnt := 0; cnt < 256; cnt++ {
		h := rtcp.Header{Count: uint8(cnt), Type: 200, Length: 1}
		hh := h
		cases = append(cases, c08case{"header-count-31", fmt.Sprint("Header count ", cnt), nil, cnt > 31})
		idx := len(cases) - 1
		_ = idx
		_ = hh
	}
	c.Space("limits")
	for _, k := range cases {
		if !c.Mine() {
			continue
		}
		if c.Expired() {
			return
		}
		if k.p == nil && k.limit == "header-count-31" {
			var cnt int
			fmt.Sscanf(k.desc, "Header count %d", &cnt)
			h := rtcp.Header{Count: uint8(cnt), Type: 200, Length: 1}
			b, err := h.Marshal()
			c.T(1)
			if k.over && (err == nil || len(b) != 0) {
				c.Report("C08/header-count-31/over-limit-accepted", "Header.Marshal accepts a count above 31", bx.Replay{Entry: "Header.Marshal", Ops: k.desc, Expected: "error", Observed: bx.Hex(b)})
			} else if !k.over && (err != nil || !bytes.Equal(b, []byte{0x80 | byte(cnt), 200, 0, 1})) {
				c.Report("C08/header-count-31/at-limit", "Header.Marshal mis-encodes a count within range", bx.Replay{Entry: "Header.Marshal", Ops: k.desc, Expected: "bytes", Observed: fmt.Sprint(bx.Hex(b), err)})
			} else {
				c.NT()
			}
			continue
		}
		c08Run(c, k, opt)
	}
	// sub-structure encoders with their own limits
	c.Space("sub-encoders")
	for _, l := range texts {
		if !c.Mine() {
			continue
		}
		it := rtcp.SourceDescriptionItem{Type: 1, Text: strings.Repeat("y", l)}
		b, err := it.Marshal()
		c.T(1)
		if l > 255 && (err == nil || len(b) != 0) {
			c.Report("C08/sdes-item-text-255/over-limit-accepted", "SourceDescriptionItem.Marshal accepts a text above 255 octets", bx.Replay{Entry: "SourceDescriptionItem.Marshal", Ops: fmt.Sprint(l), Expected: "error", Observed: bx.Short(b)})
		} else if l <= 255 && (err != nil || len(b) != 2+l || int(b[1]) != l) {
			c.Report("C08/sdes-item-text-255/at-limit", "SourceDescriptionItem.Marshal mis-encodes a text within range", bx.Replay{Entry: "SourceDescriptionItem.Marshal", Ops: fmt.Sprint(l), Expected: "bytes", Observed: fmt.Sprint(bx.Short(b), err)})
		} else {
			c.NT()
		}
	}
	for _, cls := range []uint16{rtcp.TypeTCCPacketReceivedSmallDelta, rtcp.TypeTCCPacketReceivedLargeDelta} {
		for v := int64(-70000); v <= 70000; v++ {
			if !c.Mine() {
				continue
			}
			d := rtcp.RecvDelta{Type: cls, Delta: 250 * v}
			b, err := d.Marshal()
			c.T(1)
			over := v < 0 || v > 255
			if cls == rtcp.TypeTCCPacketReceivedLargeDelta {
				over = v < -32768 || v > 32767
			}
			if over != (err != nil) || (err != nil && len(b) != 0) {
				c.Report("C08/recvdelta-range", "RecvDelta.Marshal does not reject exactly the deltas outside its size class", bx.Replay{Entry: "RecvDelta.Marshal", Ops: fmt.Sprintf("type %d ticks %d", cls, v), Expected: fmt.Sprint("error=", over), Observed: fmt.Sprint(bx.Hex(b), err)})
				continue
			}
			c.NT()
		}
	}
	// status vector chunks: at most 14 one-bit / 7 two-bit symbols fit
	for ss := uint16(0); ss < 2; ss++ {
		max := 14
		if ss == 1 {
			max = 7
		}
		for n := 0; n <= 17; n++ {
			if !c.Mine() {
				continue
			}
			syms := make([]uint16, n)
			word := uint16(0x8000) | ss<<14
			for i := range syms {
				syms[i] = uint16(i+1) & (1<<(ss+1) - 1)
				if i < max {
					if ss == 0 {
						word |= syms[i] << (13 - uint(i))
					} else {
						word |= syms[i] << (12 - 2*uint(i))
					}
				}
			}
			ch := rtcp.StatusVectorChunk{Type: rtcp.TypeTCCStatusVectorChunk, SymbolSize: ss, SymbolList: syms}
			var b []byte
			var err error
			msg, pan := bx.Guard(func() { b, err = ch.Marshal() })
			c.T(1)
			rp := bx.Replay{Entry: "StatusVectorChunk.Marshal", Ops: fmt.Sprintf("symbol size %d, %d symbols", ss, n), Expected: fmt.Sprintf("%04x or error above %d symbols", word, max), Observed: fmt.Sprint(bx.Hex(b), err, msg)}
			switch {
			case pan:
				c.Report("C08/status-vector-symbols/panic", "StatusVectorChunk.Marshal panics", rp)
			case n > max && (err == nil || len(b) != 0):
				c.Report("C08/status-vector-symbols/over-limit-accepted", "a status vector chunk with more symbols than fit is encoded (symbols dropped)", rp)
			case n <= max && (err != nil || len(b) != 2 || uint16(b[0])<<8|uint16(b[1]) != word):
				c.Report("C08/status-vector-symbols/bytes", "a status vector chunk within range is mis-encoded", rp)
			default:
				c.NT()
			}
		}
	}
	// NACK / SLI list sizes: either an error, or bytes that represent every entry
	// (more than 65533 entries cannot be expressed by the 16-bit length field: an error is required)
	for _, n := range []int{1, 252, 253, 254, 255, 256, 257, 16382, 16383, 65532, 65533, 65534, 65535, 65536, 65537, 131070} {
		if !c.Mine() {
			continue
		}
		nk := &rtcp.TransportLayerNack{SenderSSRC: 1, MediaSSRC: 2}
		for i := 0; i < n; i++ {
			nk.Nacks = append(nk.Nacks, rtcp.NackPair{PacketID: uint16(i), LostPackets: rtcp.PacketBitmap(i * 3)})
		}
		b, err, pan := safeMarshal(nk)
		c.T(1)
		if pan != "" {
			c.Report("C08/nack-list/panic", "TransportLayerNack.Marshal panics", bx.Replay{Entry: "Marshal", Ops: fmt.Sprint(n, " pairs"), Expected: "bytes or error", Observed: pan})
		} else if n > 65533 {
			if err == nil {
				c.Report("C08/nack-list/over-limit-accepted", "TransportLayerNack.Marshal accepts more pairs than the length field can express", bx.Replay{Entry: "Marshal", Ops: fmt.Sprint(n, " pairs"), Expected: "error", Observed: bx.Short(b)})
			} else {
				c.NT()
			}
		} else if err == nil {
			w, rerr := ref.Encode(nk, opt)
			if rerr != nil || !bytes.Equal(w.B, b) {
				c.Report("C08/nack-list/truncated", "TransportLayerNack.Marshal succeeds but the bytes do not represent every pair", bx.Replay{Entry: "Marshal", Ops: fmt.Sprint(n, " pairs"), Expected: "reference bytes", Observed: bx.Short(b)})
			} else {
				c.NT()
			}
		} else {
			c.NT()
		}
	}
	for _, n := range []int{1, 252, 253, 254, 255, 256, 257, 16382, 16383, 65532, 65533, 65534, 65535, 65536, 65537, 131070} {
		if !c.Mine() {
			continue
		}
		sl := &rtcp.SliceLossIndication{SenderSSRC: 1, MediaSSRC: 2}
		for i := 0; i < n; i++ {
			sl.SLI = append(sl.SLI, rtcp.SLIEntry{First: uint16(i), Number: uint16(i * 3 & 0x1fff), Picture: uint8(i & 0x3f)})
		}
		b, err, pan := safeMarshal(sl)
		c.T(1)
		switch {
		case pan != "":
			c.Report("C08/sli-list/panic", "SliceLossIndication.Marshal panics", bx.Replay{Entry: "Marshal", Ops: fmt.Sprint(n, " entries"), Expected: "bytes or error", Observed: pan})
		case n > 65533 && err == nil:
			c.Report("C08/sli-list/over-limit-accepted", "SliceLossIndication.Marshal accepts more entries than the length field can express", bx.Replay{Entry: "Marshal", Ops: fmt.Sprint(n, " entries"), Expected: "error", Observed: bx.Short(b)})
		case err == nil && len(b) != 12+4*n:
			c.Report("C08/sli-list/truncated", "SliceLossIndication.Marshal succeeds but does not emit every entry", bx.Replay{Entry: "Marshal", Ops: fmt.Sprint(n, " entries"), Expected: fmt.Sprint(12+4*n, " octets"), Observed: fmt.Sprint(len(b))})
		default:
			c.NT()
		}
	}
	// a TWCC packet holding a status vector chunk with too many symbols must not marshal
	if c.Mine() {
		for _, n := range []int{14, 15} {
			st := make([]uint8, 14)
			spec := ref.TWCCSpec{Sender: 1, Media: 2, Statuses: st, Ticks: nil, Chunks: ref.VectorChunking(st, false)}
			p := spec.Packet()
			p.PacketChunks[0].(*rtcp.StatusVectorChunk).SymbolList = make([]uint16, n)
			b, err, pan := safeMarshal(p)
			c.T(1)
			if pan != "" || (n > 14 && (err == nil || len(b) != 0)) || (n <= 14 && err != nil) {
				c.Report("C08/twcc-chunk-symbols", "TransportLayerCC.Marshal mishandles a status vector chunk at / above its symbol capacity", bx.Replay{Entry: "Marshal", Ops: fmt.Sprint(n, " one-bit symbols"), Expected: "error above 14", Observed: fmt.Sprint(bx.Short(b), err, pan)})
			} else {
				c.NT()
			}
		}
	}
	// bounded scalar fields: a value that does not fit its wire field must not be emitted masked
	c.Space("over-width-fields")
	if c.Mine() {
		type sub struct {
			key, desc string
			run       func() ([]byte, error)
		}
		var subs []sub
		for _, v := range []uint16{4, 7, 0x8000, 0xffff} {
			v := v
			subs = append(subs, sub{"RunLengthChunk.PacketStatusSymbol", fmt.Sprintf("symbol %#x", v), rtcp.RunLengthChunk{Type: rtcp.TypeTCCRunLengthChunk, PacketStatusSymbol: v, RunLength: 5}.Marshal})
		}
		for _, v := range []uint16{8192, 8193, 0x8000, 0xffff} {
			v := v
			subs = append(subs, sub{"RunLengthChunk.RunLength", fmt.Sprintf("run length %#x", v), rtcp.RunLengthChunk{Type: rtcp.TypeTCCRunLengthChunk, PacketStatusSymbol: 1, RunLength: v}.Marshal})
		}
		for _, v := range []uint16{2, 3, 0xffff} {
			v := v
			subs = append(subs, sub{"StatusVectorChunk.SymbolList(one-bit)", fmt.Sprintf("symbol %#x in a one-bit vector", v), rtcp.StatusVectorChunk{Type: rtcp.TypeTCCStatusVectorChunk, SymbolSize: 0, SymbolList: []uint16{1, v, 0}}.Marshal})
		}
		for _, v := range []uint16{4, 5, 0xffff} {
			v := v
			subs = append(subs, sub{"StatusVectorChunk.SymbolList(two-bit)", fmt.Sprintf("symbol %#x in a two-bit vector", v), rtcp.StatusVectorChunk{Type: rtcp.TypeTCCStatusVectorChunk, SymbolSize: 1, SymbolList: []uint16{1, v, 0}}.Marshal})
		}
		for _, v := range []uint16{2, 3, 0xffff} {
			v := v
			subs = append(subs, sub{"StatusVectorChunk.SymbolSize", fmt.Sprintf("symbol size %#x", v), rtcp.StatusVectorChunk{Type: rtcp.TypeTCCStatusVectorChunk, SymbolSize: v, SymbolList: []uint16{1, 0}}.Marshal})
		}
		for _, k := range subs {
			var out []byte
			var err error
			msg, pan := bx.Guard(func() { out, err = k.run() })
			c.T(1)
			rp := bx.Replay{Entry: k.key + ".Marshal", Ops: k.desc, Expected: "an error and no bytes"}
			switch {
			case pan:
				rp.Observed = "panic: " + msg
				c.Report(keyJoin("C08/over-width", k.key, "panic"), "a sub-structure encoder panics on a field value wider than its wire field", rp)
			case err == nil:
				rp.Observed = bx.Hex(out)
				c.Report(keyJoin("C08/over-width", k.key, "masked"), "a sub-structure encoder succeeds on a field value wider than its wire field: the emitted field is the value masked", rp)
			case len(out) != 0:
				rp.Observed = bx.Hex(out)
				c.Report(keyJoin("C08/over-width", k.key, "bytes-with-error"), "a sub-structure encoder returns bytes together with an error", rp)
			default:
				c.NT()
			}
		}
	}
	for _, b := range ref.Builders(c.Thorough()) {
		if strings.HasPrefix(b.Shape, "big:") || b.Type == "CompoundPacket" || b.Type == "RawPacket" {
			continue
		}
		if !c.Mine() {
			continue
		}
		b := b
		ref.OverWidthEach(b.Make, c.Thorough(), func(p rtcp.Packet, path, key string, v uint64) {
			out, err, pan := safeMarshal(p)
			c.T(1)
			rp := bx.Replay{Entry: "Marshal", Ops: fmt.Sprintf("%s{%s} with %s = %#x", b.Type, b.Shape, path, v), Expected: "an error and no bytes", Value: ref.Dump(p)}
			switch {
			case pan != "":
				rp.Observed = "panic: " + pan
				c.Report(keyJoin("C08/over-width", key, "panic"), "Marshal panics on a field value wider than its wire field", rp)
			case err == nil:
				rp.Observed = bx.Short(out)
				c.Report(keyJoin("C08/over-width", key, "masked"), "Marshal succeeds on a field value wider than its wire field: the emitted field is the value masked", rp)
			case len(out) != 0:
				rp.Observed = bx.Short(out)
				c.Report(keyJoin("C08/over-width", key, "bytes-with-error"), "Marshal returns bytes together with an error", rp)
			default:
				c.NT()
			}
		})
	}
	// the length field itself: it counts 32-bit words minus one in 16 bits, so 262144 octets is the largest packet.
	// Whatever is larger must be refused; whatever marshals must carry a length field that describes it.
	c.Space("length-field")
	type big struct {
		name string
		mk   func() rtcp.Packet
	}
	var bigs []big
	for _, total := range []int{262136, 262140, 262144, 262148, 262140 + 65536, 2 * 262144, 2*262144 + 28} {
		total := total
		bigs = append(bigs, big{fmt.Sprintf("SenderReport of %d octets (profile extensions)", total), func() rtcp.Packet {
			return &rtcp.SenderReport{SSRC: 1, ProfileExtensions: make([]byte, total-28)}
		}})
		bigs = append(bigs, big{fmt.Sprintf("ReceiverReport of %d octets (profile extensions)", total), func() rtcp.Packet {
			return &rtcp.ReceiverReport{SSRC: 1, ProfileExtensions: make([]byte, total-8)}
		}})
		bigs = append(bigs, big{fmt.Sprintf("ExtendedReport of %d octets (one unknown block)", total), func() rtcp.Packet {
			return &rtcp.ExtendedReport{SenderSSRC: 1, Reports: []rtcp.ReportBlock{&rtcp.UnknownReportBlock{XRHeader: rtcp.XRHeader{BlockType: 9}, Bytes: make([]byte, total-12)}}}
		}})
		bigs = append(bigs, big{fmt.Sprintf("ExtendedReport of %d octets (two unknown blocks)", total), func() rtcp.Packet {
			h := (total - 16) / 8 * 4
			return &rtcp.ExtendedReport{SenderSSRC: 1, Reports: []rtcp.ReportBlock{
				&rtcp.UnknownReportBlock{XRHeader: rtcp.XRHeader{BlockType: 9}, Bytes: make([]byte, h)},
				&rtcp.UnknownReportBlock{XRHeader: rtcp.XRHeader{BlockType: 10}, Bytes: make([]byte, total-16-h)}}}
		}})
		if (total-12)%8 == 0 {
			bigs = append(bigs, big{fmt.Sprintf("FullIntraRequest of %d octets (%d entries)", total, (total-12)/8), func() rtcp.Packet {
				return &rtcp.FullIntraRequest{SenderSSRC: 1, MediaSSRC: 2, FIR: make([]rtcp.FIREntry, (total-12)/8)}
			}})
		}
	}
	for _, ni := range []int{32, 33, 34, 66} {
		ni := ni
		bigs = append(bigs, big{fmt.Sprintf("SourceDescription with 31 chunks of %d items of 255 octets", ni), func() rtcp.Packet {
			p := &rtcp.SourceDescription{}
			for ch := 0; ch < 31; ch++ {
				k := rtcp.SourceDescriptionChunk{Source: uint32(ch)}
				for i := 0; i < ni; i++ {
					k.Items = append(k.Items, rtcp.SourceDescriptionItem{Type: rtcp.SDESNote, Text: strings.Repeat("t", 255)})
				}
				p.Chunks = append(p.Chunks, k)
			}
			return p
		}})
	}
	// one chunk of 1019 items of 255 octets and a last item of 250 octets is exactly 262144 octets; 251 needs a word more
	for _, last := range []int{246, 250, 251, 255} {
		last := last
		bigs = append(bigs, big{fmt.Sprintf("SourceDescription with one chunk of 1019 items of 255 octets and one of %d", last), func() rtcp.Packet {
			k := rtcp.SourceDescriptionChunk{Source: 7}
			for i := 0; i < 1019; i++ {
				k.Items = append(k.Items, rtcp.SourceDescriptionItem{Type: rtcp.SDESNote, Text: strings.Repeat("t", 255)})
			}
			k.Items = append(k.Items, rtcp.SourceDescriptionItem{Type: rtcp.SDESCNAME, Text: strings.Repeat("c", last)})
			return &rtcp.SourceDescription{Chunks: []rtcp.SourceDescriptionChunk{k}}
		}})
	}
	for _, nb := range []int{7, 8, 9, 16} {
		nb := nb
		bigs = append(bigs, big{fmt.Sprintf("CCFeedbackReport with %d blocks of 16384 metric blocks", nb), func() rtcp.Packet {
			p := &rtcp.CCFeedbackReport{SenderSSRC: 1}
			for i := 0; i < nb; i++ {
				p.ReportBlocks = append(p.ReportBlocks, rtcp.CCFeedbackReportBlock{MediaSSRC: uint32(i), MetricBlocks: make([]rtcp.CCFeedbackMetricBlock, 16384)})
			}
			return p
		}})
	}
	// seven full blocks and an eighth of n metric blocks: n = 16346 gives exactly 262144 octets
	for _, n := range []int{16342, 16344, 16346, 16348, 16350} {
		n := n
		bigs = append(bigs, big{fmt.Sprintf("CCFeedbackReport with 7 blocks of 16384 metric blocks and one of %d", n), func() rtcp.Packet {
			p := &rtcp.CCFeedbackReport{SenderSSRC: 1}
			for i := 0; i < 7; i++ {
				p.ReportBlocks = append(p.ReportBlocks, rtcp.CCFeedbackReportBlock{MediaSSRC: uint32(i), MetricBlocks: make([]rtcp.CCFeedbackMetricBlock, 16384)})
			}
			p.ReportBlocks = append(p.ReportBlocks, rtcp.CCFeedbackReportBlock{MediaSSRC: 7, MetricBlocks: make([]rtcp.CCFeedbackMetricBlock, n)})
			return p
		}})
	}
	for _, g := range bigs {
		if !c.Mine() {
			continue
		}
		p := g.mk()
		b, err, pan := safeMarshal(p)
		c.T(1)
		rp := bx.Replay{Entry: "Marshal", Ops: g.name, Expected: "the reference bytes up to 262144 octets; an error and no bytes above"}
		typ := TypeName(p)
		// the reference encoder gives the size the packet needs (and, when it fits, the bytes)
		want, rerr := ref.Encode(p, opt)
		// (the probes are well-formed apart from their size, so the reference refuses exactly those
		// that need more than 65536 words)
		fits := rerr == nil && len(want.B) <= 4*65536
		switch {
		case pan == "" && fits && err != nil:
			rp.Observed = "error: " + err.Error()
			c.Report(keyJoin("C08/length-field", typ, "fitting-size-rejected"), fmt.Sprintf("Marshal refuses a packet of %d octets, which the length field can express", len(want.B)), rp)
		case pan == "" && fits && err == nil && sameModuloFree(b, want):
			c.NT()
			c.Note(fmt.Sprintf("length-field: %s -> %d octets", g.name, len(b)))
		case pan == "" && fits && !sameModuloFree(b, want):
			rp.Observed = fmt.Sprintf("%d octets starting %s", len(b), bx.Short(b))
			c.Report(keyJoin("C08/length-field", typ, "bytes"), "Marshal output for a packet near the largest size differs from the reference encoding", rp)
		case pan == "" && !fits && err == nil:
			rp.Observed = fmt.Sprintf("%d octets starting %s", len(b), bx.Short(b))
			c.Report(keyJoin("C08/length-field", typ, "wrapped"), "Marshal succeeds on a packet larger than the length field can express: the length field is wrapped", rp)
		case pan != "":
			rp.Observed = "panic: " + pan
			c.Report(keyJoin("C08/length-field", typ, "panic"), "Marshal panics on a packet near the largest expressible size", rp)
		case err != nil && len(b) != 0:
			rp.Observed = bx.Short(b)
			c.Report(keyJoin("C08/length-field", typ, "bytes-with-error"), "Marshal returns bytes together with an error", rp)
		default:
			c.NT()
			c.Note(fmt.Sprintf("length-field: %s -> error=%v", g.name, err != nil))
		}
	}
}
