package props

import (
	"fmt"

	"github.com/pion/rtcp"

	"verif/bx"
)

// C12 — NACK pair helpers cover exactly the requested sequence numbers.

func init() {
	register(&Prop{ID: "C12", Run: runC12,
		Rule: "PacketList/Range: (PacketID, bitmap) pairs from an odometer, each with every early-stop position; NackPairsFromSequenceNumbers: every list over a window forced across the 65535->0 wrap (all orders, duplicates, gaps of 16/17). Non-trivial = lists of length >= 2 and pairs with a non-empty bitmap; oracle = set semantics computed with plain modular arithmetic",
		Assumptions: []string{
			"lists longer than the bound and sequence numbers outside the wrap window behave like those inside it (the code only looks at 16-bit differences between neighbours)",
		},
		BoundsQuick:    "pairs: all 2^16 bitmaps x 44 packet IDs x early-stop positions 0..17; lists: length <= 4 over the 37-value window {65520..65535,0..20} (1.9e6) and length <= 7 over {65533,65534,65535,0,1,16,17,18} (2.4e6)",
		BoundsThorough: "pairs: all 2^32 (PacketID, bitmap) for PacketList and full Range, early stops as quick; lists: length <= 4 over the 37-value window, length <= 5 over a 21-value window, length <= 8 over the 8-value window",
	})
}

func nackExpect(id, bm uint16) []uint16 {
	out := []uint16{id}
	for i := uint16(0); i < 16; i++ {
		if bm&(1<<i) != 0 {
			out = append(out, id+i+1)
		}
	}
	return out
}

func c12Pair(c *bx.Ctx, id, bm uint16, stops bool) {
	want := nackExpect(id, bm)
	n := rtcp.NackPair{PacketID: id, LostPackets: rtcp.PacketBitmap(bm)}
	got := n.PacketList()
	c.T(1)
	if !u16eq(got, want) {
		c.Report("C12/PacketList", "PacketList does not return ID followed by ID+i+1 for the set bits in ascending order",
			bx.Replay{Entry: "NackPair.PacketList", Value: fmt.Sprintf("%+v", n), Expected: fmt.Sprint(want), Observed: fmt.Sprint(got)})
		return
	}
	var seen []uint16
	n.Range(func(s uint16) bool { seen = append(seen, s); return true })
	c.T(1)
	if !u16eq(seen, want) {
		c.Report("C12/Range/full", "Range does not visit the numbers of PacketList in order",
			bx.Replay{Entry: "NackPair.Range", Value: fmt.Sprintf("%+v", n), Expected: fmt.Sprint(want), Observed: fmt.Sprint(seen)})
		return
	}
	if n.PacketID != id || uint16(n.LostPackets) != bm {
		c.Report("C12/Range/mutates", "PacketList/Range modify the pair",
			bx.Replay{Entry: "NackPair.Range", Value: fmt.Sprintf("id=%d bm=%04x", id, bm), Expected: "pair unchanged", Observed: fmt.Sprintf("%+v", n)})
		return
	}
	if stops {
		for k := 0; k <= 17; k++ {
			seen = seen[:0]
			calls := 0
			n.Range(func(s uint16) bool { seen = append(seen, s); calls++; return calls <= k })
			c.T(1)
			exp := want
			if k+1 < len(want) {
				exp = want[:k+1]
			}
			if !u16eq(seen, exp) {
				c.Report("C12/Range/early-stop", "Range does not stop as soon as the callback returns false",
					bx.Replay{Entry: fmt.Sprintf("NackPair.Range stop-after=%d", k), Value: fmt.Sprintf("%+v", n), Expected: fmt.Sprint(exp), Observed: fmt.Sprint(seen)})
				return
			}
		}
	}
	if bm != 0 {
		c.NT()
	}
}

func c12List(c *bx.Ctx, list []uint16) {
	in := append([]uint16{}, list...)
	pairs := rtcp.NackPairsFromSequenceNumbers(in)
	c.T(1)
	if !u16eq(in, list) {
		c.Report("C12/FromSequenceNumbers/mutates-input", "NackPairsFromSequenceNumbers modifies its input",
			bx.Replay{Entry: "NackPairsFromSequenceNumbers", Value: fmt.Sprint(list), Expected: fmt.Sprint(list), Observed: fmt.Sprint(in)})
		return
	}
	want := map[uint16]bool{}
	for _, s := range list {
		want[s] = true
	}
	got := map[uint16]bool{}
	for _, p := range pairs {
		for _, s := range nackExpect(p.PacketID, uint16(p.LostPackets)) {
			got[s] = true
		}
	}
	for s := range want {
		if !got[s] {
			c.Report("C12/FromSequenceNumbers/missing", "a requested sequence number is not covered by the generated pairs",
				bx.Replay{Entry: "NackPairsFromSequenceNumbers", Value: fmt.Sprint(list), Expected: fmt.Sprintf("covers %d", s), Observed: fmt.Sprintf("%+v", pairs)})
			return
		}
	}
	for s := range got {
		if !want[s] {
			c.Report("C12/FromSequenceNumbers/extra", "the generated pairs cover a sequence number that was not requested",
				bx.Replay{Entry: "NackPairsFromSequenceNumbers", Value: fmt.Sprint(list), Expected: fmt.Sprintf("does not cover %d", s), Observed: fmt.Sprintf("%+v", pairs)})
			return
		}
	}
	if len(list) == 0 && (pairs == nil || len(pairs) != 0) {
		// documented: empty input gives an empty (non-nil) list; nil is accepted as empty too
		if len(pairs) != 0 {
			c.Report("C12/FromSequenceNumbers/empty", "empty input yields pairs",
				bx.Replay{Entry: "NackPairsFromSequenceNumbers", Value: "[]", Expected: "no pairs", Observed: fmt.Sprintf("%+v", pairs)})
		}
	}
	if len(list) >= 2 {
		c.NT()
	}
	c.Sample(func() interface{} {
		return map[string]string{"input": fmt.Sprint(list), "pairs": fmt.Sprintf("%+v", pairs)}
	})
}

// allLists enumerates every list of length 0..maxLen over the alphabet, in
// blocks owned by the first two elements.
func allLists(c *bx.Ctx, alpha []uint16, maxLen int) {
	if c.Mine() {
		c12List(c, nil)
	}
	cur := make([]uint16, 0, maxLen)
	var rec func(depth int)
	rec = func(depth int) {
		c12List(c, cur)
		c.Add(1)
		if depth == maxLen {
			return
		}
		for _, a := range alpha {
			cur = append(cur, a)
			rec(depth + 1)
			cur = cur[:len(cur)-1]
		}
	}
	for _, a := range alpha {
		if c.Mine() {
			c12List(c, []uint16{a})
		}
		if maxLen < 2 {
			continue
		}
		for _, b := range alpha {
			if !c.MineBlock(0) {
				continue
			}
			if c.Expired() {
				return
			}
			cur = append(cur[:0], a, b)
			rec(2)
		}
	}
}

func runC12(c *bx.Ctx) {
	ids := []uint16{0, 1, 2, 15, 16, 17, 0x7ffe, 0x7fff, 0x8000, 0x8001, 0x1234, 0xfedc}
	for v := 0xffe0; v <= 0xffff; v++ {
		ids = append(ids, uint16(v))
	}
	c.Space("pairs.early-stop")
	for _, id := range ids {
		for hi := 0; hi < 256; hi++ {
			if !c.MineBlock(256) {
				continue
			}
			for lo := 0; lo < 256; lo++ {
				c12Pair(c, id, uint16(hi)<<8|uint16(lo), true)
			}
		}
	}
	if c.Thorough() {
		c.Space("pairs.all")
		for id := 0; id < 65536; id++ {
			if !c.MineBlock(65536) {
				continue
			}
			if c.Expired() {
				break
			}
			for bm := 0; bm < 65536; bm++ {
				c12Pair(c, uint16(id), uint16(bm), false)
			}
		}
	}
	var win37 []uint16
	for v := 65520; v <= 65535; v++ {
		win37 = append(win37, uint16(v))
	}
	for v := 0; v <= 20; v++ {
		win37 = append(win37, uint16(v))
	}
	// every 16-bit distance between neighbours: lists (a, a+d) for all 65536 d, and (a, a+d1, a+d1+d2)
	// over a set of boundary distances (bit-index limits, byte and word carries)
	gaps := map[uint16]bool{}
	for _, g := range []int{0, 1, 2, 14, 15, 16, 17, 18, 31, 32, 33, 4095, 4096, 32767, 32768, 32769, 65279, 65280, 65519, 65520, 65521, 65534, 65535} {
		gaps[uint16(g)] = true
	}
	for k := 3; k <= 16; k++ {
		for d := -1; d <= 17; d++ {
			gaps[uint16((1<<uint(k))+d)] = true
		}
	}
	var gapList []uint16
	for g := 0; g < 65536; g++ {
		if gaps[uint16(g)] {
			gapList = append(gapList, uint16(g))
		}
	}
	c.Space("lists.all-distances")
	for _, a := range []uint16{0, 100, 65530, 32760} {
		for hi := 0; hi < 256; hi++ {
			if !c.MineBlock(256) {
				continue
			}
			for lo := 0; lo < 256; lo++ {
				d := uint16(hi)<<8 | uint16(lo)
				c12List(c, []uint16{a, a + d})
			}
		}
		for _, d1 := range gapList {
			if !c.MineBlock(int64(len(gapList))) {
				continue
			}
			for _, d2 := range gapList {
				c12List(c, []uint16{a, a + d1, a + d1 + d2})
			}
		}
	}
	// long lists: contiguous runs (burst loss) of 15..19 and 32..36 numbers, exact and with every single deviation —
	// one element replaced by any value of a window around the run, one element duplicated at any position, two
	// elements swapped, one element removed; ascending and descending; at four bases including the wrap
	c.Space("lists.runs-with-one-deviation")
	for _, base := range []uint16{0, 1000, 65520, 65500} {
		for _, n := range []int{15, 16, 17, 18, 19, 32, 33, 34, 35, 36} {
			for _, desc := range []bool{false, true} {
				if !c.MineBlock(0) {
					continue
				}
				if c.Expired() {
					return
				}
				run := make([]uint16, n)
				for i := range run {
					if desc {
						run[i] = base + uint16(n-1-i)
					} else {
						run[i] = base + uint16(i)
					}
				}
				try := func(l []uint16) { c.Add(1); c12List(c, l) }
				try(run)
				for i := 0; i < n; i++ {
					for d := -3; d <= n+20; d++ { // replace
						l := append([]uint16{}, run...)
						l[i] = base + uint16(d)
						try(l)
					}
					for j := 0; j <= n; j++ { // duplicate element i at position j
						l := append([]uint16{}, run[:j]...)
						l = append(l, run[i])
						l = append(l, run[j:]...)
						try(l)
					}
					for j := i + 1; j < n; j++ { // swap
						l := append([]uint16{}, run...)
						l[i], l[j] = l[j], l[i]
						try(l)
					}
					l := append([]uint16{}, run[:i]...) // remove
					l = append(l, run[i+1:]...)
					try(l)
				}
			}
		}
	}
	win8 := []uint16{65533, 65534, 65535, 0, 1, 16, 17, 18}
	c.Space("lists.window37")
	allLists(c, win37, 4)
	c.Space("lists.window8")
	if c.Thorough() {
		allLists(c, win8, 8)
		c.Space("lists.window21")
		var win21 []uint16
		for v := 65526; v <= 65535; v++ {
			win21 = append(win21, uint16(v))
		}
		for v := 0; v <= 10; v++ {
			win21 = append(win21, uint16(v))
		}
		allLists(c, win21, 5)
	} else {
		allLists(c, win8, 7)
	}
}
