package props

import (
	"bytes"
	"encoding/binary"
	"fmt"

	"github.com/pion/rtcp"

	"verif/bx"
)

// C16 — fixed-width wire units encode/decode bijectively over their whole
// domain. Pure product spaces: the complete finite domain of each unit is
// enumerated (thorough) or the full domain of each field crossed with boundary
// values of the others (quick); the oracle is plain bit arithmetic.

func init() {
	register(&Prop{ID: "C16", Run: runC16,
		Rule: "every element of each unit's finite domain (odometer; distinct by construction); non-trivial = the unit was accepted/encoded and compared bit-for-bit with shift/mask arithmetic written independently of pion/rtcp",
		Assumptions: []string{
			"FIR entries (2^40) are covered as SSRC alphabet x all 256 sequence numbers; SSRC is copied, not branched on",
			"quick tier crosses each field's full domain with boundary values of the others instead of the full product",
		},
		BoundsQuick:    fmt.Sprintf("header: 256x256 first octets x %d boundary lengths both directions; chunks/deltas/metric blocks/RLE chunks: all 2^16; cumulative lost: all 2^24; NACK/SLI: each 16-/13-bit field full x boundary values of the rest; FIR: %d SSRC x 256 seq", len(lenBoundary), len(ssrcAlphabet)),
		BoundsThorough: "header: all 2^32 words and all 2^33 (P,count 0..255,PT,length) values; NACK pairs all 2^32; SLI words all 2^32; everything else as quick (already complete)",
	})
}

var lenBoundary = func() []uint16 {
	var out []uint16
	seen := map[uint16]bool{}
	add := func(v int) {
		if v < 0 || v > 65535 || seen[uint16(v)] {
			return
		}
		seen[uint16(v)] = true
		out = append(out, uint16(v))
	}
	for i := 0; i <= 8; i++ {
		add(i)
	}
	for k := 4; k <= 16; k++ {
		add(1<<k - 1)
		add(1 << k)
		add(1<<k + 1)
	}
	for _, v := range []int{0x5555, 0xaaaa, 0x1234, 0xfedc, 0x00ff, 0xff00, 65534, 65535, 16383, 16384, 49151, 49152, 0x0102, 0x8001} {
		add(v)
	}
	return out
}()

var ssrcAlphabet = func() []uint32 {
	out := []uint32{0, 1, 0xffffffff, 0x80000000, 0x7fffffff, 0x01020304, 0xfedcba98, 0x902f9e2e}
	for i := 0; i < 32; i++ {
		out = append(out, 1<<uint(i))
	}
	return out
}()

func runC16(c *bx.Ctx) {
	c16Header(c)
	c16Short(c)
	c16TWCCChunks(c)
	c16RecvDelta(c)
	c16Lost(c)
	c16Metric(c)
	c16RLEChunk(c)
	c16Nack(c)
	c16SLI(c)
	c16FIR(c)
}

func c16Header(c *bx.Ctx) {
	c.Space("header")
	// decode -> re-encode on raw words
	lens := lenBoundary
	full := c.Thorough()
	var buf [4]byte
	for b0 := 0; b0 < 256; b0++ {
		for b1 := 0; b1 < 256; b1++ {
			nl := int64(len(lens))
			if full {
				nl = 65536
			}
			if !c.MineBlock(nl) {
				continue
			}
			if c.Expired() {
				return
			}
			for li := int64(0); li < nl; li++ {
				var l uint16
				if full {
					l = uint16(li)
				} else {
					l = lens[li]
				}
				buf[0], buf[1] = byte(b0), byte(b1)
				buf[2], buf[3] = byte(l>>8), byte(l)
				var h rtcp.Header
				err := h.Unmarshal(buf[:])
				c.T(1)
				if b0>>6 != 2 {
					if err == nil {
						c.Report("C16/header/decode/bad-version-accepted", "Header.Unmarshal accepts a version other than 2",
							bx.Replay{Entry: "sub:Header", InputHex: bx.Hex(buf[:]), Expected: "error", Observed: fmt.Sprintf("%+v", h)})
					}
					continue
				}
				if err != nil {
					c.Report("C16/header/decode/rejected", "Header.Unmarshal rejects a version-2 word",
						bx.Replay{Entry: "sub:Header", InputHex: bx.Hex(buf[:]), Expected: "nil", Observed: err.Error()})
					continue
				}
				want := rtcp.Header{Padding: b0&0x20 != 0, Count: uint8(b0 & 0x1f), Type: rtcp.PacketType(b1), Length: l}
				c.Sample(func() interface{} {
					return map[string]string{"unit": "header", "wire": bx.Hex(buf[:]), "decoded": fmt.Sprintf("%+v", h)}
				})
				if h != want {
					c.Report("C16/header/decode/fields", "Header.Unmarshal extracts wrong fields",
						bx.Replay{Entry: "sub:Header", InputHex: bx.Hex(buf[:]), Expected: fmt.Sprintf("%+v", want), Observed: fmt.Sprintf("%+v", h)})
					continue
				}
				out, err := h.Marshal()
				c.T(1)
				if err != nil || !bytes.Equal(out, buf[:]) {
					c.Report("C16/header/decode-encode", "decode-then-encode of a header word is not the identity",
						bx.Replay{Entry: "sub:Header+Marshal", InputHex: bx.Hex(buf[:]), Expected: bx.Hex(buf[:]), Observed: fmt.Sprintf("%x %v", out, err)})
					continue
				}
				c.NT()
			}
		}
	}
	// encode -> decode on field values, count over the whole uint8
	for p := 0; p < 2; p++ {
		for cnt := 0; cnt < 256; cnt++ {
			for pt := 0; pt < 256; pt++ {
				nl := int64(len(lens))
				if full {
					nl = 65536
				}
				if !c.MineBlock(nl) {
					continue
				}
				if c.Expired() {
					return
				}
				for li := int64(0); li < nl; li++ {
					var l uint16
					if full {
						l = uint16(li)
					} else {
						l = lens[li]
					}
					h := rtcp.Header{Padding: p == 1, Count: uint8(cnt), Type: rtcp.PacketType(pt), Length: l}
					out, err := h.Marshal()
					c.T(1)
					if cnt > 31 {
						if err == nil {
							c.Report("C16/header/encode/count-over-31", "Header.Marshal encodes a count above 31",
								bx.Replay{Entry: "Header.Marshal", Value: fmt.Sprintf("%+v", h), Expected: "error", Observed: bx.Hex(out)})
						} else if len(out) != 0 {
							c.Report("C16/header/encode/bytes-with-error", "Header.Marshal returns bytes together with an error",
								bx.Replay{Entry: "Header.Marshal", Value: fmt.Sprintf("%+v", h), Expected: "no bytes", Observed: bx.Hex(out)})
						}
						continue
					}
					want := [4]byte{byte(0x80 | p<<5 | cnt), byte(pt), byte(l >> 8), byte(l)}
					if err != nil || !bytes.Equal(out, want[:]) {
						c.Report("C16/header/encode/bytes", "Header.Marshal emits wrong bytes",
							bx.Replay{Entry: "Header.Marshal", Value: fmt.Sprintf("%+v", h), Expected: bx.Hex(want[:]), Observed: fmt.Sprintf("%x %v", out, err)})
						continue
					}
					var g rtcp.Header
					err = g.Unmarshal(out)
					c.T(1)
					if err != nil || g != h {
						c.Report("C16/header/encode-decode", "encode-then-decode of a header is not the identity",
							bx.Replay{Entry: "Header.Marshal+Unmarshal", Value: fmt.Sprintf("%+v", h), Expected: fmt.Sprintf("%+v", h), Observed: fmt.Sprintf("%+v %v", g, err)})
						continue
					}
					c.NT()
				}
			}
		}
	}
}

// fewer than 4 octets are rejected
func c16Short(c *bx.Ctx) {
	c.Space("header.short")
	check := func(b []byte) {
		var h rtcp.Header
		err := h.Unmarshal(b)
		c.T(1)
		if err == nil {
			c.Report("C16/header/short-accepted", "Header.Unmarshal accepts fewer than 4 octets",
				bx.Replay{Entry: "sub:Header", InputHex: bx.Hex(b), Expected: "error", Observed: fmt.Sprintf("%+v", h)})
		} else {
			c.NT()
		}
	}
	if c.Mine() {
		check(nil)
		check([]byte{})
	}
	for a := 0; a < 256; a++ {
		if c.Mine() {
			check([]byte{byte(a)})
		}
		for b := 0; b < 256; b++ {
			if !c.MineBlock(257) {
				continue
			}
			check([]byte{byte(a), byte(b)})
			for d := 0; d < 256; d++ {
				check([]byte{byte(a), byte(b), byte(d)})
			}
		}
	}
}

func c16TWCCChunks(c *bx.Ctx) {
	c.Space("twcc.chunks")
	for hi := 0; hi < 256; hi++ {
		if !c.MineBlock(256 * 2) {
			continue
		}
		for lo := 0; lo < 256; lo++ {
			w := uint16(hi)<<8 | uint16(lo)
			b := []byte{byte(hi), byte(lo)}
			if w&0x8000 == 0 {
				// run-length chunk, canonical (T=0)
				var r rtcp.RunLengthChunk
				err := r.Unmarshal(b)
				c.T(1)
				ws, wl := (w>>13)&3, w&0x1fff
				if err != nil || r.PacketStatusSymbol != ws || r.RunLength != wl || r.Type != rtcp.TypeTCCRunLengthChunk {
					c.Report("C16/twcc-runlength/decode/fields", "RunLengthChunk.Unmarshal extracts wrong fields",
						bx.Replay{Entry: "sub:RunLengthChunk", InputHex: bx.Hex(b), Expected: fmt.Sprintf("S=%d L=%d", ws, wl), Observed: fmt.Sprintf("%+v %v", r, err)})
					continue
				}
				out, err := r.Marshal()
				c.T(1)
				if err != nil || !bytes.Equal(out, b) {
					c.Report("C16/twcc-runlength/decode-encode", "decode-then-encode of a run-length chunk is not the identity",
						bx.Replay{Entry: "sub:RunLengthChunk+Marshal", InputHex: bx.Hex(b), Expected: bx.Hex(b), Observed: fmt.Sprintf("%x %v", out, err)})
					continue
				}
				// encode -> decode from field values
				e := rtcp.RunLengthChunk{Type: rtcp.TypeTCCRunLengthChunk, PacketStatusSymbol: ws, RunLength: wl}
				out, err = e.Marshal()
				var d rtcp.RunLengthChunk
				var err2 error
				if err == nil {
					err2 = d.Unmarshal(out)
				}
				c.T(2)
				if err != nil || err2 != nil || !bytes.Equal(out, b) || d.PacketStatusSymbol != ws || d.RunLength != wl {
					c.Report("C16/twcc-runlength/encode-decode", "encode-then-decode of a run-length chunk is not the identity",
						bx.Replay{Entry: "RunLengthChunk.Marshal+Unmarshal", Value: fmt.Sprintf("%+v", e), Expected: bx.Hex(b), Observed: fmt.Sprintf("%x %v %v %+v", out, err, err2, d)})
					continue
				}
				c.NT()
			} else {
				var v rtcp.StatusVectorChunk
				err := v.Unmarshal(b)
				c.T(1)
				ss := (w >> 14) & 1
				var syms []uint16
				if ss == 0 {
					for i := 0; i < 14; i++ {
						syms = append(syms, (w>>(13-uint(i)))&1)
					}
				} else {
					for i := 0; i < 7; i++ {
						syms = append(syms, (w>>(12-2*uint(i)))&3)
					}
				}
				if err != nil || v.SymbolSize != ss || !u16eq(v.SymbolList, syms) || v.Type != rtcp.TypeTCCStatusVectorChunk {
					c.Report("C16/twcc-vector/decode/fields", "StatusVectorChunk.Unmarshal extracts wrong fields",
						bx.Replay{Entry: "sub:StatusVectorChunk", InputHex: bx.Hex(b), Expected: fmt.Sprintf("S=%d %v", ss, syms), Observed: fmt.Sprintf("%+v %v", v, err)})
					continue
				}
				out, err := v.Marshal()
				c.T(1)
				if err != nil || !bytes.Equal(out, b) {
					c.Report("C16/twcc-vector/decode-encode", "decode-then-encode of a status-vector chunk is not the identity",
						bx.Replay{Entry: "sub:StatusVectorChunk+Marshal", InputHex: bx.Hex(b), Expected: bx.Hex(b), Observed: fmt.Sprintf("%x %v", out, err)})
					continue
				}
				e := rtcp.StatusVectorChunk{Type: rtcp.TypeTCCStatusVectorChunk, SymbolSize: ss, SymbolList: syms}
				out, err = e.Marshal()
				var d rtcp.StatusVectorChunk
				var err2 error
				if err == nil {
					err2 = d.Unmarshal(out)
				}
				c.T(2)
				if err != nil || err2 != nil || !bytes.Equal(out, b) || d.SymbolSize != ss || !u16eq(d.SymbolList, syms) {
					c.Report("C16/twcc-vector/encode-decode", "encode-then-decode of a status-vector chunk is not the identity",
						bx.Replay{Entry: "StatusVectorChunk.Marshal+Unmarshal", Value: fmt.Sprintf("%+v", e), Expected: bx.Hex(b), Observed: fmt.Sprintf("%x %v %v %+v", out, err, err2, d)})
					continue
				}
				c.NT()
			}
		}
	}
	// wrong sizes are rejected
	if c.Mine() {
		for _, n := range []int{0, 1, 3, 4} {
			b := make([]byte, n)
			var r rtcp.RunLengthChunk
			var v rtcp.StatusVectorChunk
			c.T(2)
			if r.Unmarshal(b) == nil || v.Unmarshal(b) == nil {
				c.Report("C16/twcc-chunk/size-accepted", "a packet status chunk of other than 2 octets is accepted",
					bx.Replay{Entry: "sub:RunLengthChunk", InputHex: bx.Hex(b), Expected: "error", Observed: "nil"})
			}
		}
	}
}

func u16eq(a, b []uint16) bool {
	if len(a) != len(b) {
		return false
	}
	for i := range a {
		if a[i] != b[i] {
			return false
		}
	}
	return true
}

func c16RecvDelta(c *bx.Ctx) {
	c.Space("recvdelta")
	for v := 0; v < 256; v++ {
		if !c.Mine() {
			continue
		}
		b := []byte{byte(v)}
		var d rtcp.RecvDelta
		err := d.Unmarshal(b)
		c.T(1)
		if err != nil || d.Type != rtcp.TypeTCCPacketReceivedSmallDelta || d.Delta != 250*int64(v) {
			c.Report("C16/recvdelta-small/decode", "1-octet receive delta decoded wrongly",
				bx.Replay{Entry: "sub:RecvDelta", InputHex: bx.Hex(b), Expected: fmt.Sprint(250 * v), Observed: fmt.Sprintf("%+v %v", d, err)})
			continue
		}
		out, err := d.Marshal()
		c.T(1)
		if err != nil || !bytes.Equal(out, b) {
			c.Report("C16/recvdelta-small/decode-encode", "decode-then-encode of a 1-octet delta is not the identity",
				bx.Replay{Entry: "sub:RecvDelta+Marshal", InputHex: bx.Hex(b), Expected: bx.Hex(b), Observed: fmt.Sprintf("%x %v", out, err)})
			continue
		}
		e := rtcp.RecvDelta{Type: rtcp.TypeTCCPacketReceivedSmallDelta, Delta: 250 * int64(v)}
		out, err = e.Marshal()
		var g rtcp.RecvDelta
		var err2 error
		if err == nil {
			err2 = g.Unmarshal(out)
		}
		c.T(2)
		if err != nil || err2 != nil || g != e {
			c.Report("C16/recvdelta-small/encode-decode", "encode-then-decode of a small delta is not the identity",
				bx.Replay{Entry: "RecvDelta.Marshal+Unmarshal", Value: fmt.Sprintf("%+v", e), Expected: fmt.Sprintf("%+v", e), Observed: fmt.Sprintf("%+v %v %v", g, err, err2)})
			continue
		}
		c.NT()
	}
	for v := 0; v < 65536; v++ {
		if !c.Mine() {
			continue
		}
		b := []byte{byte(v >> 8), byte(v)}
		var d rtcp.RecvDelta
		err := d.Unmarshal(b)
		c.T(1)
		want := 250 * int64(int16(uint16(v)))
		if err != nil || d.Type != rtcp.TypeTCCPacketReceivedLargeDelta || d.Delta != want {
			c.Report("C16/recvdelta-large/decode", "2-octet receive delta decoded wrongly",
				bx.Replay{Entry: "sub:RecvDelta", InputHex: bx.Hex(b), Expected: fmt.Sprint(want), Observed: fmt.Sprintf("%+v %v", d, err)})
			continue
		}
		out, err := d.Marshal()
		c.T(1)
		if err != nil || !bytes.Equal(out, b) {
			c.Report("C16/recvdelta-large/decode-encode", "decode-then-encode of a 2-octet delta is not the identity",
				bx.Replay{Entry: "sub:RecvDelta+Marshal", InputHex: bx.Hex(b), Expected: bx.Hex(b), Observed: fmt.Sprintf("%x %v", out, err)})
			continue
		}
		e := rtcp.RecvDelta{Type: rtcp.TypeTCCPacketReceivedLargeDelta, Delta: want}
		out, err = e.Marshal()
		var g rtcp.RecvDelta
		var err2 error
		if err == nil {
			err2 = g.Unmarshal(out)
		}
		c.T(2)
		if err != nil || err2 != nil || g != e {
			c.Report("C16/recvdelta-large/encode-decode", "encode-then-decode of a large delta is not the identity",
				bx.Replay{Entry: "RecvDelta.Marshal+Unmarshal", Value: fmt.Sprintf("%+v", e), Expected: fmt.Sprintf("%+v", e), Observed: fmt.Sprintf("%+v %v %v", g, err, err2)})
			continue
		}
		c.NT()
	}
	if c.Mine() {
		for _, n := range []int{0, 3, 4} {
			var d rtcp.RecvDelta
			c.T(1)
			if d.Unmarshal(make([]byte, n)) == nil {
				c.Report("C16/recvdelta/size-accepted", "a receive delta of other than 1 or 2 octets is accepted",
					bx.Replay{Entry: "sub:RecvDelta", InputHex: bx.Hex(make([]byte, n)), Expected: "error", Observed: "nil"})
			}
		}
	}
}

func c16Lost(c *bx.Ctx) {
	c.Space("cumulative-lost")
	base := rtcp.ReceptionReport{SSRC: 0x902f9e2e, FractionLost: 0xA5, LastSequenceNumber: 0x81828384, Jitter: 0x91929394, LastSenderReport: 0xa1a2a3a4, Delay: 0xb1b2b3b4}
	raw := make([]byte, 24)
	binary.BigEndian.PutUint32(raw, base.SSRC)
	raw[4] = base.FractionLost
	binary.BigEndian.PutUint32(raw[8:], base.LastSequenceNumber)
	binary.BigEndian.PutUint32(raw[12:], base.Jitter)
	binary.BigEndian.PutUint32(raw[16:], base.LastSenderReport)
	binary.BigEndian.PutUint32(raw[20:], base.Delay)
	for hi := 0; hi < 65536; hi++ {
		if !c.MineBlock(256) {
			continue
		}
		if c.Expired() {
			return
		}
		for lo := 0; lo < 256; lo++ {
			v := uint32(hi)<<8 | uint32(lo)
			raw[5], raw[6], raw[7] = byte(v>>16), byte(v>>8), byte(v)
			r := base
			r.TotalLost = v
			out, err := r.Marshal()
			c.T(1)
			if err != nil || !bytes.Equal(out, raw) {
				c.Report("C16/cumulative-lost/encode", "ReceptionReport.Marshal emits wrong bytes for a 24-bit loss count",
					bx.Replay{Entry: "ReceptionReport.Marshal", Value: fmt.Sprintf("%+v", r), Expected: bx.Hex(raw), Observed: fmt.Sprintf("%x %v", out, err)})
				continue
			}
			var g rtcp.ReceptionReport
			err = g.Unmarshal(raw)
			c.T(1)
			if err != nil || g != r {
				c.Report("C16/cumulative-lost/decode", "ReceptionReport.Unmarshal does not return the encoded loss count",
					bx.Replay{Entry: "sub:ReceptionReport", InputHex: bx.Hex(raw), Expected: fmt.Sprintf("%+v", r), Observed: fmt.Sprintf("%+v %v", g, err)})
				continue
			}
			c.NT()
		}
	}
}

// ccfbPacket builds the RFC 8888 bytes of a report with one block holding the
// given metric-block words. num_reports follows the implementation's
// convention (C03 judges the convention); the metric words are what C16 is
// about.
func ccfbPacket(words []uint16, numReports uint16) []byte {
	n := len(words)
	if n%2 == 1 {
		n++
	}
	total := 4 + 4 + 8 + 2*n + 4
	b := make([]byte, total)
	b[0], b[1] = 0x80|11, 205
	binary.BigEndian.PutUint16(b[2:], uint16(total/4-1))
	binary.BigEndian.PutUint32(b[4:], 0x01020304)
	binary.BigEndian.PutUint32(b[8:], 0x11121314)
	binary.BigEndian.PutUint16(b[12:], 0x2122)
	binary.BigEndian.PutUint16(b[14:], numReports)
	for i, w := range words {
		binary.BigEndian.PutUint16(b[16+2*i:], w)
	}
	binary.BigEndian.PutUint32(b[total-4:], 0x31323334)
	return b
}

func c16Metric(c *bx.Ctx) {
	c.Space("ccfb.metric")
	for hi := 0; hi < 256; hi++ {
		if !c.MineBlock(256) {
			continue
		}
		for lo := 0; lo < 256; lo++ {
			w := uint16(hi)<<8 | uint16(lo)
			// the unit under test is the first of two metric blocks; the second is fixed
			mb := rtcp.CCFeedbackMetricBlock{Received: w&0x8000 != 0, ECN: rtcp.ECN((w >> 13) & 3), ArrivalTimeOffset: w & 0x1fff}
			canonical := mb.Received || w == 0
			if !mb.Received {
				mb.ECN, mb.ArrivalTimeOffset = 0, 0
			}
			fixed := rtcp.CCFeedbackMetricBlock{Received: true, ECN: 1, ArrivalTimeOffset: 0x155}
			pk := rtcp.CCFeedbackReport{SenderSSRC: 0x01020304, ReportTimestamp: 0x31323334, ReportBlocks: []rtcp.CCFeedbackReportBlock{{MediaSSRC: 0x11121314, BeginSequence: 0x2122, MetricBlocks: []rtcp.CCFeedbackMetricBlock{mb, fixed}}}}
			out, err := pk.Marshal()
			c.T(1)
			if err != nil || len(out) != 24 {
				c.Report("C16/ccfb-metric/encode/failed", "a two-metric-block CCFB report does not marshal to 24 octets",
					bx.Replay{Entry: "CCFeedbackReport.Marshal", Value: fmt.Sprintf("%+v", pk), Expected: "24 octets", Observed: fmt.Sprintf("%x %v", out, err)})
				continue
			}
			raw := ccfbPacket([]uint16{w, 0xa155}, binary.BigEndian.Uint16(out[14:]))
			if canonical && !bytes.Equal(out, raw) {
				c.Report("C16/ccfb-metric/encode/bits", "metric block bits are not R(1) ECN(2) ATO(13)",
					bx.Replay{Entry: "CCFeedbackReport.Marshal", Value: fmt.Sprintf("%+v", pk), Expected: bx.Hex(raw), Observed: bx.Hex(out)})
				continue
			}
			var g rtcp.CCFeedbackReport
			err = g.Unmarshal(raw)
			c.T(1)
			if err != nil || len(g.ReportBlocks) != 1 || len(g.ReportBlocks[0].MetricBlocks) != 2 || g.ReportBlocks[0].MetricBlocks[0] != mb || g.ReportBlocks[0].MetricBlocks[1] != fixed {
				c.Report("C16/ccfb-metric/decode", "metric block decoded wrongly",
					bx.Replay{Entry: "own:CCFeedbackReport", InputHex: bx.Hex(raw), Expected: fmt.Sprintf("%+v", mb), Observed: fmt.Sprintf("%+v %v", g, err)})
				continue
			}
			if canonical {
				re, err := g.Marshal()
				c.T(1)
				if err != nil || !bytes.Equal(re, raw) {
					c.Report("C16/ccfb-metric/decode-encode", "decode-then-encode of a canonical metric block is not the identity",
						bx.Replay{Entry: "own:CCFeedbackReport+Marshal", InputHex: bx.Hex(raw), Expected: bx.Hex(raw), Observed: fmt.Sprintf("%x %v", re, err)})
					continue
				}
			}
			c.NT()
		}
	}
}

func c16RLEChunk(c *bx.Ctx) {
	c.Space("xr.rle-chunk")
	for hi := 0; hi < 256; hi++ {
		if !c.MineBlock(256) {
			continue
		}
		for lo := 0; lo < 256; lo++ {
			w := uint16(hi)<<8 | uint16(lo)
			ch := rtcp.Chunk(w)
			var wt rtcp.ChunkType
			var wv uint
			var wr uint
			wrErr := true
			switch {
			case w == 0:
				wt, wv = rtcp.TerminatingNullChunkType, 0
			case w&0x8000 != 0:
				wt, wv = rtcp.BitVectorChunkType, uint(w&0x7fff)
			default:
				wt, wv, wr, wrErr = rtcp.RunLengthChunkType, uint(w&0x3fff), uint(w>>14)&1, false
			}
			rt, rerr := ch.RunType()
			c.T(3)
			if ch.Type() != wt || ch.Value() != wv || (rerr != nil) != wrErr || (!wrErr && rt != wr) {
				c.Report("C16/xr-rle-chunk/accessors", "XR RLE chunk accessors disagree with RFC 3611 4.1.1-4.1.3",
					bx.Replay{Entry: "Chunk.Type/RunType/Value", Value: fmt.Sprintf("0x%04x", w), Expected: fmt.Sprintf("type=%d value=%d run=%d err=%v", wt, wv, wr, wrErr), Observed: fmt.Sprintf("type=%d value=%d run=%d err=%v", ch.Type(), ch.Value(), rt, rerr)})
				continue
			}
			// through the wire: a Loss RLE block carrying (w, ^w)
			xr := rtcp.ExtendedReport{SenderSSRC: 0x01020304, Reports: []rtcp.ReportBlock{&rtcp.LossRLEReportBlock{T: 5, SSRC: 0x11121314, BeginSeq: 0x2122, EndSeq: 0x3132, Chunks: []rtcp.Chunk{ch, rtcp.Chunk(^w)}}}}
			out, err := xr.Marshal()
			c.T(1)
			raw := []byte{0x80, 207, 0, 5, 1, 2, 3, 4, 1, 5, 0, 3, 0x11, 0x12, 0x13, 0x14, 0x21, 0x22, 0x31, 0x32, byte(w >> 8), byte(w), byte(^w >> 8), byte(^w)}
			if err != nil || !bytes.Equal(out, raw) {
				c.Report("C16/xr-rle-chunk/encode", "XR RLE chunk is not written as a big-endian 16-bit word",
					bx.Replay{Entry: "ExtendedReport.Marshal", Value: fmt.Sprintf("chunk 0x%04x", w), Expected: bx.Hex(raw), Observed: fmt.Sprintf("%x %v", out, err)})
				continue
			}
			var g rtcp.ExtendedReport
			err = g.Unmarshal(raw)
			c.T(1)
			ok := err == nil && len(g.Reports) == 1
			if ok {
				lb, is := g.Reports[0].(*rtcp.LossRLEReportBlock)
				ok = is && len(lb.Chunks) == 2 && lb.Chunks[0] == ch && lb.Chunks[1] == rtcp.Chunk(^w)
			}
			if !ok {
				c.Report("C16/xr-rle-chunk/decode", "XR RLE chunk does not survive decode",
					bx.Replay{Entry: "own:ExtendedReport", InputHex: bx.Hex(raw), Expected: fmt.Sprintf("chunk 0x%04x", w), Observed: fmt.Sprintf("%+v %v", g, err)})
				continue
			}
			c.NT()
		}
	}
}

func nackRaw(id, blp uint16) []byte {
	return []byte{0x81, 205, 0, 3, 0x90, 0x2f, 0x9e, 0x2e, 0xa1, 0xb2, 0xc3, 0xd4, byte(id >> 8), byte(id), byte(blp >> 8), byte(blp)}
}

func c16NackOne(c *bx.Ctx, id, blp uint16) {
	raw := nackRaw(id, blp)
	p := rtcp.TransportLayerNack{SenderSSRC: 0x902f9e2e, MediaSSRC: 0xa1b2c3d4, Nacks: []rtcp.NackPair{{PacketID: id, LostPackets: rtcp.PacketBitmap(blp)}}}
	out, err := p.Marshal()
	c.T(1)
	c.Sample(func() interface{} {
		return map[string]string{"unit": "nack-pair", "value": fmt.Sprintf("%+v", p.Nacks[0]), "wire": bx.Hex(out)}
	})
	if err != nil || !bytes.Equal(out, raw) {
		c.Report("C16/nack-pair/encode", "NACK pair is not encoded as PID(16) BLP(16)",
			bx.Replay{Entry: "TransportLayerNack.Marshal", Value: fmt.Sprintf("%+v", p), Expected: bx.Hex(raw), Observed: fmt.Sprintf("%x %v", out, err)})
		return
	}
	var g rtcp.TransportLayerNack
	err = g.Unmarshal(raw)
	c.T(1)
	if err != nil || len(g.Nacks) != 1 || g.Nacks[0] != p.Nacks[0] || g.SenderSSRC != p.SenderSSRC || g.MediaSSRC != p.MediaSSRC {
		c.Report("C16/nack-pair/decode", "NACK pair does not survive decode",
			bx.Replay{Entry: "own:TransportLayerNack", InputHex: bx.Hex(raw), Expected: fmt.Sprintf("%+v", p), Observed: fmt.Sprintf("%+v %v", g, err)})
		return
	}
	c.NT()
}

var hi16 = []uint16{0, 1, 0x7fff, 0x8000, 0xffff, 0x5555, 0xaaaa, 0x0100, 0x00ff, 0xff00, 0x8001, 0x1234, 0xfedc, 2, 0x4000, 0xfffe}

func c16Nack(c *bx.Ctx) {
	c.Space("nack.pairs")
	if c.Thorough() {
		for id := 0; id < 65536; id++ {
			if !c.MineBlock(65536) {
				continue
			}
			if c.Expired() {
				return
			}
			for blp := 0; blp < 65536; blp++ {
				c16NackOne(c, uint16(id), uint16(blp))
			}
		}
		return
	}
	for v := 0; v < 65536; v++ {
		if !c.MineBlock(32) {
			continue
		}
		for _, o := range hi16 {
			c16NackOne(c, uint16(v), o)
			c16NackOne(c, o, uint16(v))
		}
	}
}

func c16SLIOne(c *bx.Ctx, first, number uint16, pic uint8) {
	w := uint32(first)<<19 | uint32(number)<<6 | uint32(pic)
	// RFC 4585 6.3.2: PT=PSFB (206), FMT=2. pion emits 205; the entry word is what C16 looks at.
	p := rtcp.SliceLossIndication{SenderSSRC: 0x902f9e2e, MediaSSRC: 0xa1b2c3d4, SLI: []rtcp.SLIEntry{{First: first, Number: number, Picture: pic}}}
	out, err := p.Marshal()
	c.T(1)
	if err != nil || len(out) != 16 || binary.BigEndian.Uint32(out[12:]) != w {
		c.Report("C16/sli-entry/encode", "SLI entry is not encoded as First(13) Number(13) PictureID(6)",
			bx.Replay{Entry: "SliceLossIndication.Marshal", Value: fmt.Sprintf("%+v", p), Expected: fmt.Sprintf("%08x", w), Observed: fmt.Sprintf("%x %v", out, err)})
		return
	}
	var g rtcp.SliceLossIndication
	err = g.Unmarshal(out)
	c.T(1)
	if err != nil || len(g.SLI) != 1 || g.SLI[0] != p.SLI[0] {
		c.Report("C16/sli-entry/decode", "SLI entry does not survive decode",
			bx.Replay{Entry: "own:SliceLossIndication", InputHex: bx.Hex(out), Expected: fmt.Sprintf("%+v", p), Observed: fmt.Sprintf("%+v %v", g, err)})
		return
	}
	c.NT()
}

func c16SLI(c *bx.Ctx) {
	c.Space("sli.words")
	if c.Thorough() {
		for f := 0; f < 8192; f++ {
			for n := 0; n < 8192; n += 8 {
				if !c.MineBlock(8 * 64) {
					continue
				}
				if c.Expired() {
					return
				}
				for k := 0; k < 8; k++ {
					for p := 0; p < 64; p++ {
						c16SLIOne(c, uint16(f), uint16(n+k), uint8(p))
					}
				}
			}
		}
		return
	}
	b13 := []uint16{0, 1, 0x1fff, 0x1000, 0x0fff, 0x1555, 0x0aaa, 0x0100}
	b6 := []uint8{0, 1, 63, 32, 31, 0x2a, 0x15}
	for v := 0; v < 8192; v++ {
		if !c.MineBlock(int64(2 * len(b13) * len(b6))) {
			continue
		}
		for _, o := range b13 {
			for _, p := range b6 {
				c16SLIOne(c, uint16(v), o, p)
				c16SLIOne(c, o, uint16(v), p)
			}
		}
	}
	for p := 0; p < 64; p++ {
		if !c.MineBlock(int64(len(b13) * len(b13))) {
			continue
		}
		for _, a := range b13 {
			for _, b := range b13 {
				c16SLIOne(c, a, b, uint8(p))
			}
		}
	}
}

func c16FIR(c *bx.Ctx) {
	c.Space("fir.entries")
	for _, ssrc := range ssrcAlphabet {
		for seq := 0; seq < 256; seq++ {
			if !c.Mine() {
				continue
			}
			raw := []byte{0x84, 206, 0, 4, 0x90, 0x2f, 0x9e, 0x2e, 0xa1, 0xb2, 0xc3, 0xd4, byte(ssrc >> 24), byte(ssrc >> 16), byte(ssrc >> 8), byte(ssrc), byte(seq), 0, 0, 0}
			p := rtcp.FullIntraRequest{SenderSSRC: 0x902f9e2e, MediaSSRC: 0xa1b2c3d4, FIR: []rtcp.FIREntry{{SSRC: ssrc, SequenceNumber: uint8(seq)}}}
			out, err := p.Marshal()
			c.T(1)
			if err != nil || !bytes.Equal(out, raw) {
				c.Report("C16/fir-entry/encode", "FIR entry is not encoded as SSRC(32) Seq(8) Reserved(24)=0",
					bx.Replay{Entry: "FullIntraRequest.Marshal", Value: fmt.Sprintf("%+v", p), Expected: bx.Hex(raw), Observed: fmt.Sprintf("%x %v", out, err)})
				continue
			}
			var g rtcp.FullIntraRequest
			err = g.Unmarshal(raw)
			c.T(1)
			if err != nil || len(g.FIR) != 1 || g.FIR[0] != p.FIR[0] {
				c.Report("C16/fir-entry/decode", "FIR entry does not survive decode",
					bx.Replay{Entry: "own:FullIntraRequest", InputHex: bx.Hex(raw), Expected: fmt.Sprintf("%+v", p), Observed: fmt.Sprintf("%+v %v", g, err)})
				continue
			}
			// reserved bits set: still the same entry (C04), re-encoded canonically
			raw2 := append([]byte{}, raw...)
			raw2[17], raw2[18], raw2[19] = 0xff, 0xff, 0xff
			var g2 rtcp.FullIntraRequest
			err = g2.Unmarshal(raw2)
			c.T(1)
			if err != nil || len(g2.FIR) != 1 || g2.FIR[0] != p.FIR[0] {
				c.Report("C16/fir-entry/decode-reserved", "FIR entry with reserved bits set is not decoded to the same entry",
					bx.Replay{Entry: "own:FullIntraRequest", InputHex: bx.Hex(raw2), Expected: fmt.Sprintf("%+v", p), Observed: fmt.Sprintf("%+v %v", g2, err)})
				continue
			}
			c.NT()
		}
	}
}
