package props

import (
	"fmt"
	"strings"

	"github.com/pion/rtcp"

	"verif/bx"
	"verif/ref"
)

// C04 — Unmarshal extracts the RFC-specified fields from any valid encoding.

func init() {
	register(&Prop{ID: "C04", Run: runC04,
		Rule: "(a) every value of D in the canonical RFC encoding produced by the independent reference encoder (not by the library), (b) every RFC-permitted encoding variant the statement lists (all TWCC chunkings of every status sequence up to length k, unnormalised REMB pairs, padded APP, reserved bits in FIR/XR, CCFB not-received blocks with stray bits, BYE reason forms), (c) every count-inflated SR/RR/SDES/BYE; each through the type's own decoder and rtcp.Unmarshal. Non-trivial = accepted and compared field by field (or, for (c), rejected)",
		Assumptions: []string{
			"only the variants the statement lists are demanded",
			"RFC 8888 num_reports reading fixed by probe (see C03); variants of the other reading are skipped",
		},
		BoundsQuick:    "D quick; TWCC sequences of length <= 5 x all chunkings; REMB 56 values x all equivalent pairs; APP data 0..9 x pads; reserved-bit patterns",
		BoundsThorough: "D thorough; TWCC sequences of length <= 7; APP data 0..17",
	})
}

func c04Decode(c *bx.Ctx, typ string, raw []byte, want rtcp.Packet, reject bool, key, name string, cls string) bool {
	rp := func(entry, exp, obs string) bx.Replay {
		return bx.Replay{Entry: entry, InputHex: bx.Hex(raw), Ops: name, Expected: exp, Observed: obs}
	}
	good := true
	for _, entry := range []string{"own", "dgram"} {
		var got rtcp.Packet
		var err error
		var pan string
		if entry == "own" {
			got, err, pan = safeOwn(typ, append([]byte{}, raw...))
		} else {
			var ps []rtcp.Packet
			ps, err, pan = safeDgram(append([]byte{}, raw...))
			if err == nil && pan == "" {
				if len(ps) != 1 {
					err = fmt.Errorf("%d packets", len(ps))
				} else {
					got = ps[0]
				}
			}
		}
		c.T(1)
		if pan != "" {
			c.Report(keyJoin(key, entry, "panic", cls), "decoder panics on a valid encoding", rp(entry+":"+typ, "value", "panic: "+pan))
			good = false
			continue
		}
		if reject {
			if err == nil {
				c.Report(keyJoin(key, entry, "inflated-count-accepted"), "a header count that claims more elements than the packet holds is accepted", rp(entry+":"+typ, "error", ref.Dump(got)))
				good = false
			}
			continue
		}
		if err != nil {
			c.Report(keyJoin(key, entry, "rejected", cls), "a valid RFC encoding is rejected", rp(entry+":"+typ, ref.Dump(want), "error: "+err.Error()))
			good = false
			continue
		}
		if TypeName(got) != typ {
			c.Report(keyJoin(key, entry, "type", TypeName(got), cls), "a valid RFC encoding is returned as a different Go type", rp(entry+":"+typ, typ, TypeName(got)))
			good = false
			continue
		}
		if path, ok := ref.Equal(want, got); !ok {
			c.Report(keyJoin(key, entry, "field", bx.NormPath(path), cls), "decoded field differs from the value the specification assigns at "+path, rp(entry+":"+typ, ref.Dump(want), ref.Dump(got)))
			good = false
		}
	}
	return good
}

func runC04(c *bx.Ctx) {
	opt, _, _ := ccfbReading()
	c.Space("D-canonical-rfc-encoding")
	forD(c, func(v ref.V) {
		if v.Type == "CompoundPacket" {
			return // members are judged individually; the container has no wire form of its own
		}
		w, err := ref.Encode(v.P, opt)
		if err != nil {
			c.Report(keyJoin("C04", v.Type, "harness/reference-rejects"), "HARNESS: reference encoder rejects a value of D", bx.Replay{Entry: "ref.Encode", Value: valueString(v), ValueGob: valueGob(v), Expected: "bytes", Observed: err.Error()})
			return
		}
		if c04Decode(c, v.Type, w.B, quantise(v.P), false, keyJoin("C04", v.Type, "canonical"), v.String(), shapeClass(v.P)) {
			c.NT()
		}
		c.Sample(func() interface{} { return map[string]string{"value": v.String(), "rfc_encoding": bx.Short(w.B)} })
	})
	c.Space("variants")
	level := 1
	if c.Thorough() {
		level = 2
	}
	ref.VariantStream(level, func(vr ref.Variant) bool {
		if !c.Mine() {
			return true
		}
		if c.Expired() {
			return false
		}
		if strings.HasPrefix(vr.Name, "CCFB-count") != opt.CCFBNumReportsIsCount && strings.HasPrefix(vr.Name, "CCFB-") {
			return true
		}
		kind := strings.Fields(vr.Name)[0]
		if c04Decode(c, vr.Type, vr.B, vr.Want, vr.Reject, keyJoin("C04", vr.Type, "variant", kind), vr.Name, "") {
			c.NT()
		}
		c.Sample(func() interface{} { return map[string]string{"variant": vr.Name, "wire": bx.Short(vr.B)} })
		return true
	})
}
