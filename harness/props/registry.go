// Package props holds one explorer per property.
package props

import (
	"sort"

	"verif/bx"
)

// InstrBuild is true in the statement-instrumented build (set by instr_on.go).
var InstrBuild bool

// Prop describes one registered property check.
type Prop struct {
	ID               string
	Run              func(*bx.Ctx)
	Instr            bool // wants the statement-instrumented build
	Workers          int  // 0 = all cores
	Procs            int  // GOMAXPROCS per worker (default 1)
	DeathIsViolation bool // a dying worker process is a violation of this property
	Rule             string
	Assumptions      []string
	BoundsQuick      interface{}
	BoundsThorough   interface{}
}

// MaxProcs is the GOMAXPROCS value for workers.
func (p *Prop) MaxProcs() int {
	if p.Procs > 0 {
		return p.Procs
	}
	return 1
}

// Bounds describes the bounds explored in a tier.
func (p *Prop) Bounds(tier string) interface{} {
	if tier == "thorough" && p.BoundsThorough != nil {
		return p.BoundsThorough
	}
	return p.BoundsQuick
}

var registry = map[string]*Prop{}

func register(p *Prop) { registry[p.ID] = p }

// Lookup finds a property by id.
func Lookup(id string) *Prop { return registry[id] }

// IDs lists registered properties.
func IDs() []string {
	var out []string
	for k := range registry {
		out = append(out, k)
	}
	sort.Strings(out)
	return out
}
