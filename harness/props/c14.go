package props

import (
	"encoding/binary"
	"fmt"
	"math"

	"github.com/pion/rtcp"

	"verif/bx"
)

// C14 — REMB bitrate coding is exact, monotone and saturating.

func init() {
	register(&Prop{ID: "C14", Run: runC14,
		Rule: "decode: (exponent, mantissa) wire pairs from an odometer; encode: float32 bit patterns in ascending order; SSRC lists by length. Non-trivial = mantissa != 0 (decode) / bitrate >= 2^18 so that normalisation runs (encode). Oracle = exact power-of-two arithmetic in float64 (every operand has <= 24 significant bits, so float64 is exact)",
		Assumptions: []string{
			"NaN and infinities are outside the statement (non-negative finite bitrates)",
		},
		BoundsQuick:    "decode: 64 exponents x mantissas {0..4095, 2^k, 2^k+-1, top 4096}; encode: 255 float exponents x 4096+46 mantissa patterns (all high 10 bits x 4 low patterns, walking ones/zeros) plus +-64 ulps around every power of two and the saturation point; negatives: the same patterns with the sign set; SSRC lists 0..257",
		BoundsThorough: "decode: all 2^24 wire pairs; encode: all 2^31-2^23 non-negative finite float32 values in ascending order and all negative finite float32 values; SSRC lists 0..257; MarshalTo buffer sizes",
	})
}

func rembWire(exp uint8, mant uint32, ssrcs int) []byte {
	n := 20 + 4*ssrcs
	b := make([]byte, n)
	b[0], b[1] = 0x8f, 206
	binary.BigEndian.PutUint16(b[2:], uint16(n/4-1))
	binary.BigEndian.PutUint32(b[4:], 0x902f9e2e)
	copy(b[12:], "REMB")
	b[16] = byte(ssrcs)
	b[17] = exp<<2 | byte(mant>>16)
	b[18] = byte(mant >> 8)
	b[19] = byte(mant)
	for i := 0; i < ssrcs; i++ {
		binary.BigEndian.PutUint32(b[20+4*i:], 0xa0000000+uint32(i))
	}
	return b
}

func c14Decode(c *bx.Ctx, exp uint8, mant uint32) {
	raw := rembWire(exp, mant, 1)
	var p rtcp.ReceiverEstimatedMaximumBitrate
	err := p.Unmarshal(raw)
	c.T(1)
	want := float32(math.Ldexp(float64(mant), int(exp)))
	if err != nil {
		c.Report("C14/decode/rejected", "a well-formed REMB packet is rejected",
			bx.Replay{Entry: "own:ReceiverEstimatedMaximumBitrate", InputHex: bx.Hex(raw), Expected: fmt.Sprint(want), Observed: err.Error()})
		return
	}
	if p.Bitrate != want {
		key := "C14/decode/value"
		what := "decoded bitrate is not mantissa x 2^exponent"
		if mant == 0 {
			key = "C14/decode/mantissa-zero"
			what = "mantissa 0 does not decode to bitrate 0"
		}
		c.Report(key, what, bx.Replay{Entry: "own:ReceiverEstimatedMaximumBitrate", InputHex: bx.Hex(raw),
			Expected: fmt.Sprintf("exp=%d mantissa=%d -> %g", exp, mant, want), Observed: fmt.Sprintf("%g", p.Bitrate)})
		return
	}
	if mant != 0 {
		c.NT()
	}
	c.Sample(func() interface{} {
		return map[string]interface{}{"dir": "decode", "exp": exp, "mantissa": mant, "bitrate": p.Bitrate}
	})
}

// rembExpect returns the reference (exponent, mantissa) for a non-negative finite x.
func rembExpect(x float32) (uint8, uint32) {
	v := float64(x)
	const max = float64(0x3FFFF) * (1 << 63)
	if v >= max {
		return 63, 0x3FFFF
	}
	if v < 1<<18 {
		return 0, uint32(math.Floor(v))
	}
	_, e2 := math.Frexp(v) // v = f * 2^e2, f in [0.5,1)  => v in [2^(e2-1), 2^e2)
	e := e2 - 18           // v / 2^e in [2^17, 2^18)
	m := math.Floor(math.Ldexp(v, -e))
	return uint8(e), uint32(m)
}

type c14mono struct {
	have bool
	prev float64
	px   float32
}

func c14Encode(c *bx.Ctx, x float32, mono *c14mono) {
	p := rtcp.ReceiverEstimatedMaximumBitrate{SenderSSRC: 0x902f9e2e, Bitrate: x, SSRCs: []uint32{0xa0000000}}
	out, err := p.Marshal()
	c.T(1)
	we, wm := rembExpect(x)
	if err != nil || len(out) != 24 {
		c.Report("C14/encode/failed", "a non-negative finite bitrate does not marshal",
			bx.Replay{Entry: "ReceiverEstimatedMaximumBitrate.Marshal", Value: fmt.Sprintf("bitrate=%g bits=%08x", x, math.Float32bits(x)), Expected: fmt.Sprintf("exp=%d mantissa=%d", we, wm), Observed: fmt.Sprintf("%x %v", out, err)})
		return
	}
	ge := out[17] >> 2
	gm := uint32(out[17]&3)<<16 | uint32(out[18])<<8 | uint32(out[19])
	if ge != we || gm != wm {
		c.Report("C14/encode/value", "encoded (exponent, mantissa) is not the largest 18-bit value with minimal exponent not exceeding the bitrate",
			bx.Replay{Entry: "ReceiverEstimatedMaximumBitrate.Marshal", Value: fmt.Sprintf("bitrate=%g bits=%08x", x, math.Float32bits(x)), Expected: fmt.Sprintf("exp=%d mantissa=%d", we, wm), Observed: fmt.Sprintf("exp=%d mantissa=%d", ge, gm)})
		return
	}
	enc := math.Ldexp(float64(gm), int(ge))
	if enc > float64(x) || (float64(x)-enc >= math.Ldexp(1, int(ge)) && !(ge == 63 && gm == 0x3FFFF)) {
		c.Report("C14/encode/bound", "decode(encode(x)) exceeds x or falls short by a unit in the last place or more",
			bx.Replay{Entry: "ReceiverEstimatedMaximumBitrate.Marshal", Value: fmt.Sprintf("bitrate=%g", x), Expected: "x - 2^e < enc <= x", Observed: fmt.Sprintf("enc=%g", enc)})
		return
	}
	if mono != nil {
		if mono.have && enc < mono.prev {
			c.Report("C14/encode/monotone", "encoding is not monotone in the bitrate",
				bx.Replay{Entry: "ReceiverEstimatedMaximumBitrate.Marshal", Value: fmt.Sprintf("x1=%g x2=%g", mono.px, x), Expected: "enc(x1) <= enc(x2)", Observed: fmt.Sprintf("%g > %g", mono.prev, enc)})
			return
		}
		mono.have, mono.prev, mono.px = true, enc, x
	}
	// decode of the encoder's own output (mantissa 0 is judged under decode)
	if gm != 0 {
		var q rtcp.ReceiverEstimatedMaximumBitrate
		err = q.Unmarshal(out)
		c.T(1)
		if err != nil || float64(q.Bitrate) != enc {
			c.Report("C14/roundtrip", "decode(encode(x)) is not the encoded value",
				bx.Replay{Entry: "ReceiverEstimatedMaximumBitrate.Marshal+Unmarshal", Value: fmt.Sprintf("bitrate=%g", x), Expected: fmt.Sprint(enc), Observed: fmt.Sprintf("%g %v", q.Bitrate, err)})
			return
		}
	}
	if x >= 1<<18 {
		c.NT()
	}
	c.Sample(func() interface{} {
		return map[string]interface{}{"dir": "encode", "bitrate": x, "exp": ge, "mantissa": gm}
	})
}

func c14Negative(c *bx.Ctx, x float32) {
	p := rtcp.ReceiverEstimatedMaximumBitrate{Bitrate: x}
	out, err := p.Marshal()
	c.T(1)
	if err == nil || len(out) != 0 {
		c.Report("C14/encode/negative-accepted", "a negative bitrate is encoded",
			bx.Replay{Entry: "ReceiverEstimatedMaximumBitrate.Marshal", Value: fmt.Sprintf("bitrate=%g", x), Expected: "error and no bytes", Observed: fmt.Sprintf("%x %v", out, err)})
		return
	}
	c.NT()
}

func quickMantissas() []uint32 {
	seen := map[uint32]bool{}
	var out []uint32
	add := func(v uint32) {
		v &= 0x7fffff
		if !seen[v] {
			seen[v] = true
			out = append(out, v)
		}
	}
	for hi := uint32(0); hi < 1024; hi++ {
		for _, lo := range []uint32{0, 1, 0x1fff, 0x1000} {
			add(hi<<13 | lo)
		}
	}
	for k := uint(0); k < 23; k++ {
		add(1 << k)
		add(^(1 << k))
	}
	return out
}

func runC14(c *bx.Ctx) {
	// ---- decode
	c.Space("decode.pairs")
	if c.Thorough() {
		for e := 0; e < 64; e++ {
			for hi := 0; hi < 1024; hi++ {
				if !c.MineBlock(256) {
					continue
				}
				if c.Expired() {
					break
				}
				for lo := 0; lo < 256; lo++ {
					c14Decode(c, uint8(e), uint32(hi)<<8|uint32(lo))
				}
			}
		}
	} else {
		seen := map[uint32]bool{}
		var ms []uint32
		add := func(v uint32) {
			if v <= 0x3ffff && !seen[v] {
				seen[v] = true
				ms = append(ms, v)
			}
		}
		for v := uint32(0); v < 4096; v++ {
			add(v)
			add(0x3ffff - v)
		}
		for k := uint(0); k < 18; k++ {
			add(1 << k)
			add(1<<k - 1)
			add(1<<k + 1)
		}
		for e := 0; e < 64; e++ {
			if !c.MineBlock(int64(len(ms))) {
				continue
			}
			for _, m := range ms {
				c14Decode(c, uint8(e), m)
			}
		}
	}
	// ---- encode, ascending sweep; each block is a contiguous range so the
	// monotonicity check runs inside the block and across its first element
	c.Space("encode.bitrates")
	if c.Thorough() {
		const blk = 1 << 16
		for start := uint32(0); start < 0x7f800000; start += blk {
			if !c.MineBlock(blk) {
				continue
			}
			if c.Expired() {
				break
			}
			mono := &c14mono{}
			if start > 0 {
				c14Encode(c, math.Float32frombits(start-1), mono)
			}
			for i := uint32(0); i < blk; i++ {
				c14Encode(c, math.Float32frombits(start+i), mono)
			}
		}
	} else {
		ms := quickMantissas()
		for e := uint32(0); e < 255; e++ {
			if !c.MineBlock(int64(len(ms))) {
				continue
			}
			for _, m := range ms {
				c14Encode(c, math.Float32frombits(e<<23|m), nil)
			}
		}
		// +-64 ulps around every power of two, ascending, with monotonicity
		for e := uint32(1); e < 255; e++ {
			if !c.MineBlock(129) {
				continue
			}
			mono := &c14mono{}
			base := e << 23
			for d := int32(-64); d <= 64; d++ {
				c14Encode(c, math.Float32frombits(uint32(int32(base)+d)), mono)
			}
		}
		// saturation point 0x3FFFF * 2^63
		sat := math.Float32bits(float32(float64(0x3FFFF) * (1 << 63)))
		if c.MineBlock(257) {
			mono := &c14mono{}
			for d := int32(-128); d <= 128; d++ {
				c14Encode(c, math.Float32frombits(uint32(int32(sat)+d)), mono)
			}
		}
	}
	// ---- negatives
	c.Space("encode.negative")
	ms := quickMantissas()
	for e := uint32(0); e < 255; e++ {
		if !c.MineBlock(int64(len(ms))) {
			continue
		}
		for _, m := range ms {
			if e == 0 && m == 0 {
				continue // -0 is zero, not negative
			}
			c14Negative(c, math.Float32frombits(0x80000000|e<<23|m))
		}
	}
	if c.Thorough() {
		c.Space("encode.negative-all")
		const blk = 1 << 16
		for start := uint32(0x80000001); start < 0xff800000; start += blk {
			if !c.MineBlock(0) {
				continue
			}
			if c.Expired() {
				break
			}
			for i := uint32(0); i < blk && start+i < 0xff800000; i++ {
				c.Add(1)
				c14Negative(c, math.Float32frombits(start+i))
			}
		}
	}
	// ---- MarshalTo: caller-supplied buffers
	c.Space("MarshalTo")
	for _, n := range []int{0, 1, 2, 255} {
		for _, f := range []float32{0, 1, 262143, 262144, 8927168, 1e12, 3e38} {
			if !c.Mine() {
				continue
			}
			p := rtcp.ReceiverEstimatedMaximumBitrate{SenderSSRC: 0x902f9e2e, Bitrate: f}
			for i := 0; i < n; i++ {
				p.SSRCs = append(p.SSRCs, 0xa0000000+uint32(i))
			}
			want, err := p.Marshal()
			c.T(1)
			if err != nil {
				continue
			}
			size := len(want)
			for _, bl := range []int{0, 1, 19, size - 1, size, size + 1, size + 64} {
				if bl < 0 {
					continue
				}
				buf := make([]byte, bl)
				for i := range buf {
					buf[i] = 0xEE
				}
				var got int
				var merr error
				msg, pan := bx.Guard(func() { got, merr = p.MarshalTo(buf) })
				c.T(1)
				rp := bx.Replay{Entry: "ReceiverEstimatedMaximumBitrate.MarshalTo", Value: fmt.Sprintf("%d SSRCs bitrate %g buffer %d octets", n, f, bl), Expected: "size or error", Observed: fmt.Sprint(got, merr, msg)}
				switch {
				case pan:
					c.Report("C14/MarshalTo/panic", "MarshalTo panics on a caller buffer", rp)
				case bl < size && (merr == nil || got != 0):
					c.Report("C14/MarshalTo/short-buffer-accepted", "MarshalTo succeeds on a buffer shorter than MarshalSize", rp)
				case bl >= size && (merr != nil || got != size || string(buf[:size]) != string(want)):
					c.Report("C14/MarshalTo/bytes", "MarshalTo does not write exactly the Marshal bytes", rp)
				case bl > size && buf[size] != 0xEE:
					c.Report("C14/MarshalTo/writes-past-size", "MarshalTo writes past the packet size", rp)
				default:
					c.NT()
				}
			}
		}
	}
	// ---- SSRC count octet
	c.Space("ssrc-count")
	for n := 0; n <= 257; n++ {
		if !c.Mine() {
			continue
		}
		p := rtcp.ReceiverEstimatedMaximumBitrate{SenderSSRC: 0x902f9e2e, Bitrate: 8927168}
		for i := 0; i < n; i++ {
			p.SSRCs = append(p.SSRCs, 0xa0000000+uint32(i))
		}
		out, err, pan := safeMarshal(&p)
		c.T(1)
		if pan != "" {
			c.Report("C14/ssrc-count/panic", "Marshal panics for a REMB packet with many SSRC entries: "+pan,
				bx.Replay{Entry: "ReceiverEstimatedMaximumBitrate.Marshal", Value: fmt.Sprintf("%d SSRCs", n), Expected: "bytes or error", Observed: "panic: " + pan})
			continue
		}
		if err != nil {
			if n <= 255 {
				c.Report("C14/ssrc-count/rejected", "a REMB packet with at most 255 SSRC entries does not marshal",
					bx.Replay{Entry: "ReceiverEstimatedMaximumBitrate.Marshal", Value: fmt.Sprintf("%d SSRCs", n), Expected: "success", Observed: err.Error()})
			}
			continue
		}
		if len(out) < 20 || int(out[16]) != n || len(out) != 20+4*n {
			c.Report("C14/ssrc-count/octet", "the SSRC count octet does not equal the number of SSRC entries",
				bx.Replay{Entry: "ReceiverEstimatedMaximumBitrate.Marshal", Value: fmt.Sprintf("%d SSRCs", n), Expected: fmt.Sprintf("count octet %d", n), Observed: fmt.Sprintf("count octet %d, %d octets", out[16], len(out))})
			continue
		}
		want := rembWire(out[17]>>2, uint32(out[17]&3)<<16|uint32(out[18])<<8|uint32(out[19]), n)
		var q rtcp.ReceiverEstimatedMaximumBitrate
		err = q.Unmarshal(want)
		c.T(1)
		ok := err == nil && len(q.SSRCs) == n
		for i := 0; ok && i < n; i++ {
			ok = q.SSRCs[i] == 0xa0000000+uint32(i)
		}
		if !ok {
			c.Report("C14/ssrc-count/decode", "SSRC entries do not survive decode",
				bx.Replay{Entry: "own:ReceiverEstimatedMaximumBitrate", InputHex: bx.Hex(want), Expected: fmt.Sprintf("%d SSRCs", n), Observed: fmt.Sprintf("%d %v", len(q.SSRCs), err)})
			continue
		}
		c.NT()
	}
}
