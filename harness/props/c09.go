package props

import (
	"bytes"
	"fmt"
	"strings"

	"github.com/pion/rtcp"

	"verif/bx"
	"verif/ref"
)

// C09 — re-encoding a decoded datagram is stable.

func init() {
	register(&Prop{ID: "C09", Run: runC09,
		Rule: "every byte string of C01's spaces S2/S3/S4 (S3 also around the C04 variant seeds) plus splices (concatenations and word-boundary cross-overs of representative seeds) that rtcp.Unmarshal accepts; on each: Marshal of every returned packet must not panic; when all succeed, the new bytes must decode again to a semantically equal list. Non-trivial = accepted by rtcp.Unmarshal and re-encoded; rejected inputs are counted separately",
		Assumptions: []string{
			"'reached by mutating, splicing and resizing ... and by coverage-guided fuzzing' is rendered as the exhaustive <=2-deviation neighbourhood of the seeds; no coverage-guided search is used",
			"TransportLayerCC packets are judged only when the decoded header is consistent with the content (length field = content words - 1, P only with padding octets)",
		},
		BoundsQuick:    "as C01 quick (S2, S3, S4) through the datagram decoder only; splices of ~40 representative seeds",
		BoundsThorough: "as C01 thorough",
	})
}

type c09 struct {
	c        *bx.Ctx
	onPacket func(in []byte, ps []rtcp.Packet) // extra hook (C17)
	judge    bool
}

func (x *c09) all(b []byte)                 { x.one(b) }
func (x *c09) near(typ string, b []byte)    { x.one(b) }
func (x *c09) addressed(pt int, b []byte)   { x.one(b) }

func twccConsistent(t *rtcp.TransportLayerCC) bool {
	n := 20 + 2*len(t.PacketChunks)
	for _, d := range t.RecvDeltas {
		if d.Type == rtcp.TypeTCCPacketReceivedSmallDelta {
			n++
		} else {
			n += 2
		}
	}
	pad := (4 - n%4) % 4
	if int(t.Header.Length) != (n+pad)/4-1 {
		return false
	}
	if t.Header.Padding && pad == 0 {
		return false
	}
	if t.Header.Count != 15 || t.Header.Type != 205 {
		return false
	}
	return true
}

func c09class(p rtcp.Packet) string {
	switch v := p.(type) {
	case *rtcp.ReceiverEstimatedMaximumBitrate:
		// a wire mantissa of 0 decodes to 2^(exp+23) (known finding of C14); such values are exact powers of two >= 2^23
		f := float64(v.Bitrate)
		if f >= 1<<23 {
			fr, _ := frexp(f)
			if fr == 0.5 {
				return "power-of-two-bitrate"
			}
		}
	}
	return ""
}

func frexp(f float64) (float64, int) {
	e := 0
	for f >= 1 {
		f /= 2
		e++
	}
	return f, e
}

func (x *c09) one(in []byte) {
	c := x.c
	priv := append([]byte(nil), in...)
	stepsSetBudget(1 << 60) // decoding is C01's matter: no step budget here
	ps, err, pan := safeDgram(priv)
	c.T(1)
	if pan != "" {
		c.Count("decode-panicked(C01)", 1)
		return
	}
	if err != nil {
		c.Count("rejected", 1)
		return
	}
	c.Count("accepted", 1)
	if x.onPacket != nil {
		x.onPacket(in, ps)
	}
	if !x.judge {
		return
	}
	types := make([]string, len(ps))
	for i, p := range ps {
		types[i] = TypeName(p)
		if t, ok := p.(*rtcp.TransportLayerCC); ok && !twccConsistent(t) {
			c.Count("skipped-twcc-inconsistent-header", 1)
			return
		}
	}
	rp := func(exp, obs string) bx.Replay {
		return bx.Replay{Entry: "dgram+Marshal+dgram", InputHex: bx.Hex(in), Expected: exp, Observed: obs}
	}
	var out []byte
	for i, p := range ps {
		m, err, pan := safeMarshal(p)
		c.T(1)
		if pan != "" {
			c.Report(keyJoin("C09", types[i], "marshal-panic", bx.PanicSite(pan)), "Marshal of a decoded "+types[i]+" panics: "+pan, rp("bytes or error", "panic: "+pan))
			return
		}
		if err != nil {
			c.Count("remarshal-refused:"+types[i], 1)
			return
		}
		// per-packet stability first, so that the finding names the type
		qs, err, pan := safeDgram(append([]byte{}, m...))
		c.T(1)
		cls := c09class(p)
		if pan != "" || err != nil {
			c.Report(keyJoin("C09", types[i], "reencoding-rejected", cls), "the re-encoding of a decoded "+types[i]+" is not accepted again", rp("accepted", fmt.Sprint(err, pan, " reencoded=", bx.Short(m))))
			return
		}
		if len(qs) != 1 {
			c.Report(keyJoin("C09", types[i], "reencoding-splits", cls), "the re-encoding of one decoded packet decodes to a different number of packets", rp("1 packet", fmt.Sprint(len(qs), " reencoded=", bx.Short(m))))
			return
		}
		if path, ok := ref.Equal(p, qs[0]); !ok {
			c.Report(keyJoin("C09", types[i], "differs", bx.NormPath(path), cls), "decode-encode-decode changes the packet at "+path, rp(ref.Dump(p), ref.Dump(qs[0])+" reencoded="+bx.Short(m)))
			return
		}
		out = append(out, m...)
	}
	if len(ps) > 1 {
		qs, err, pan := safeDgram(out)
		c.T(1)
		if pan != "" || err != nil || len(qs) != len(ps) {
			c.Report(keyJoin("C09/list", strings.Join(dedup(types), "+")), "the re-encoded datagram does not decode to a list of the same length", rp(fmt.Sprint(len(ps)), fmt.Sprint(len(qs), err, pan)))
			return
		}
		for i := range ps {
			if _, ok := ref.Equal(ps[i], qs[i]); !ok {
				c.Report(keyJoin("C09/list-differs", types[i]), "the re-encoded datagram decodes to a different list", rp(ref.Dump(ps[i]), ref.Dump(qs[i])))
				return
			}
		}
	}
	if !bytes.Equal(priv, in) {
		c.Report("C09/input-modified", "rtcp.Unmarshal or a later Marshal modified the input datagram", rp("unchanged", bx.Short(priv)))
	}
	c.NT()
	c.Count("accepted:"+strings.Join(dedup(types), "+"), 1)
	c.Sample(func() interface{} { return map[string]interface{}{"input": bx.Short(in), "types": types} })
}

func dedup(in []string) []string {
	var out []string
	seen := map[string]bool{}
	for _, s := range in {
		if !seen[s] {
			seen[s] = true
			out = append(out, s)
		}
	}
	if len(out) > 4 {
		out = append(out[:4], "…")
	}
	return out
}

// genSplices: concatenations of two representative seeds and cross-overs
// (prefix of A cut at each word boundary + suffix of B from each word boundary).
func genSplices(c *bx.Ctx, x byteSink) {
	c.Space("splices")
	var reps []seed
	for _, s := range byteSeeds(c.Thorough()) {
		if s.rep && len(s.b) <= 128 {
			reps = append(reps, s)
		}
	}
	c.Note(fmt.Sprintf("splice seeds: %d", len(reps)))
	for _, a := range reps {
		for _, b := range reps {
			if !c.MineBlock(0) {
				continue
			}
			if c.Expired() {
				return
			}
			c.Add(1)
			x.all(append(append([]byte{}, a.b...), b.b...))
			for i := 4; i <= len(a.b); i += 4 {
				for j := 0; j < len(b.b); j += 4 {
					buf := append(append([]byte{}, a.b[:i]...), b.b[j:]...)
					c.Add(2)
					x.all(buf)
					// with the first header's length re-fitted to the whole
					if len(buf)/4-1 <= 0xffff {
						buf2 := append([]byte{}, buf...)
						buf2[2], buf2[3] = byte((len(buf)/4-1)>>8), byte(len(buf)/4-1)
						x.all(buf2)
					}
				}
			}
		}
	}
}

func runC09(c *bx.Ctx) {
	x := &c09{c: c, judge: true}
	genS2(c, x)
	genS3(c, x)
	genS4(c, x)
	genSplices(c, x)
}
