#!/bin/sh
# Runs every check (quick tier) on the statement-instrumented build and reports which statements of
# package rtcp no check ever executes (a vacuity guard for the alphabets). Writes evidence as usual.
cd "$(dirname "$0")"
export VERIF_COVERAGE=1
for p in C01 C02 C03 C04 C05 C06 C07 C08 C09 C10 C11 C12 C13 C14 C15 C16 C17 C18; do
	./verify $p quick | tail -1
done
python3 - <<'PY'
import json,glob,subprocess,os,tempfile
vec=None
for f in sorted(glob.glob('evidence/C*.json')):
    h=json.load(open(f))['coverage'].get('statement_hit_vector_hex')
    if not h: continue
    b=bytes.fromhex(h)
    vec=bytearray(b) if vec is None else bytearray(x|y for x,y in zip(vec,b))
# point table from a fresh instrumenter run
d=tempfile.mkdtemp()
subprocess.check_call(['harness/bin/instr','/repo',d])
pts=json.load(open(d+'/info.json'))['points']
unc=[(p['file'],p['line']) for p in pts if p['id']>=len(vec) or not vec[p['id']]]
print("statement points: %d, reached by at least one check: %d, never reached: %d"%(len(pts),len(pts)-len(unc),len(unc)))
for f,l in sorted(set(unc)): print("  %s:%d"%(f,l))
PY
