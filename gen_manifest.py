#!/usr/bin/env python3
# Regenerates MANIFEST.json from the table below (kept next to the checks so they stay in sync).
import json
CLAIMED = json.load(open('/verif/manifest_checks.json'))
props = [json.loads(l) for l in open('/verif/properties.jsonl')]
checks = []
na = []
for p in props:
    pid = p['id']
    if pid in CLAIMED:
        c = CLAIMED[pid]
        checks.append({
            "property_id": pid,
            "quick_cmd": "./verify %s quick" % pid,
            "thorough_cmd": "./verify %s thorough" % pid,
            "evidence_file": "/verif/evidence/%s.json" % pid,
            "replay_cmd_template": "./verify replay {path}",
            "engine": c.get("engine", "bx"),
            "level_claimed": {"category": "model_checking", "text": c["text"], "design_ref": c["design_ref"]},
            "level_note": c["note"],
            "technique": c["technique"],
        })
    else:
        na.append({"property_id": pid, "reason": "check not built yet in this revision of /verif (planned, see DESIGN.md section 4); not claimed"})
m = {
    "version": 1,
    "setup_cmd": "./verify setup",
    "hooks": {
        "guard": "verif-overlay (no hook is committed to /repo: instrumentation is generated from the current tree by harness/cmd/instr and applied with go build -overlay; build tag verifinstr selects the harness side)",
        "enable": "go build -overlay <generated>/instr.json -tags verifinstr ./cmd/vcheck (done by ./verify for C01, C17, C18)",
        "baseline_off_cmd": "cd /repo && GOFLAGS=-mod=mod GOPROXY=off GOSUMDB=off GOTOOLCHAIN=local go test -vet=off -count=1 ./...",
        "source_commits": [],
        "add_only": True,
    },
    "engines": [
        {"name": "bx", "path": "/verif/harness/bx", "serves_properties": sorted(CLAIMED.keys()),
         "kind_free_text": "hand-written bounded-exhaustive explorer: deterministic odometer / BFS / DFS enumeration sharded over 16 worker processes, real pion/rtcp code executed on every case, reference-model oracle"},
    ],
    "checks": checks,
    "not_applicable": na,
    "notes": "All checks rebuild the worker from /repo's working tree on every invocation. Known findings: /verif/KNOWN_FINDINGS.txt.",
}
json.dump(m, open('/verif/MANIFEST.json', 'w'), indent=1)
print("claimed", len(checks), "not claimed", len(na))
